package worldb

import (
	"fmt"
	"os"
	"testing"
)

// TestSmoke runs a few fixed programs under a few schedules; it is a
// development aid (VERIF_SMOKE=1), not one of the registered checks.
func TestSmoke(t *testing.T) {
	if os.Getenv("VERIF_SMOKE") == "" {
		t.Skip("set VERIF_SMOKE=1")
	}
	progs := []string{
		"echo hi; a=1; echo $a",
		"a=(1 2); a+=x & a+=y; wait; echo ${a[@]}",
		"(sleep 2; exit 3) & (sleep 1; exit 4) & wait g1; echo $?; wait g2; echo $?",
		"emit 5 | cat | drain",
		"cat <(emit 3 x)",
		"x=$(emit 2); echo \"$x\"",
		"cat <<EOF\nhello $HOME\nEOF\n",
		"f() { echo in-f; }; f & f; wait",
		"while true; do :; done",
		"sleep 100 & wait",
		"read x; echo got $x",
	}
	for pi, p := range progs {
		for seed := uint64(0); seed < 3; seed++ {
			spec := &RunSpec{Programs: []string{p}, Strategy: Strategy{Kind: "random", Seed: seed}, CancelStep: -1, PipeCap: 7, StdoutFail: -1, FaultProg: -1, CancelProg: -1, Stdin: "silent"}
			if pi >= 8 {
				spec.CancelStep = 6
			}
			res := Execute(t, spec)
			fmt.Printf("prog=%q seed=%d steps=%d sim=%v returned=%v err=%q out=%q stderr=%q races=%d hang=%q harness=%q leaked=%d forced=%v switches=%d cancel@%d(%s)+%d steps\n",
				p, seed, res.Steps, res.SimTime, res.Returned, res.last().Err, res.last().Stdout, res.last().Stderr, res.Races, res.Hang, res.HarnessErr, res.LeakedGoroutines, res.ForcedShutdown, res.Switches, res.CancelAtStep, res.CancelMainPoint, res.StepsAfterCancel)
		}
	}
}
