package worldb

import (
	"fmt"
	"sort"
	"strings"
	"testing"
	"time"

	"verifsim/kit"
)

// HistProg is one earlier program of a Runner-reuse history (C30).
type HistProg struct {
	Lines      []string `json:"lines"`
	Reset      bool     `json:"reset,omitempty"` // Reset() before this program
	CancelStep int      `json:"cancel_step"`     // -1: runs to its end
	Faults     []Fault  `json:"faults,omitempty"`
}

// Case is one generated scenario of one property: the parts it is built
// from (so that the minimiser can drop parts), the schedule strategy and
// the fault plan. A replay file is a Case whose strategy is a recorded tape.
type Case struct {
	Property   string     `json:"property"`
	Idx        int        `json:"idx"`
	Seed       uint64     `json:"seed"`
	Kind       string     `json:"kind"`
	InFunc     bool       `json:"in_func,omitempty"`
	Setup      []string   `json:"setup,omitempty"`
	S          []string   `json:"s,omitempty"`
	T          []string   `json:"t,omitempty"`
	Ctx        string     `json:"ctx,omitempty"`
	Ctx2       string     `json:"ctx2,omitempty"`
	History    []HistProg `json:"history,omitempty"`
	Prog       []string   `json:"prog,omitempty"`
	Sub        []string   `json:"sub,omitempty"`
	Lang       string     `json:"lang,omitempty"` // parser variant ("" = bash)
	Solo       bool       `json:"solo,omitempty"` // run the statements plainly in sequence (crash attribution)
	Theme      string     `json:"theme,omitempty"`
	Params     []string   `json:"params,omitempty"`   // positional parameters the Runner is built with
	Warm       []string   `json:"warm,omitempty"`     // C31: earlier Run calls on the same Runner, each with a context of its own that is never cancelled
	PerStmt    bool       `json:"per_stmt,omitempty"` // C31: the program is run one top-level statement per Run call
	Expect     []string   `json:"expect,omitempty"` // expected stdout lines (wait oracle)
	Strategy   Strategy   `json:"strategy"`
	CancelStep int        `json:"cancel_step"`
	PipeCap    int        `json:"pipe_cap"`
	Faults     []Fault    `json:"faults,omitempty"`
	Stdin      string     `json:"stdin,omitempty"`
	EnvArrays  bool       `json:"env_arrays,omitempty"`
	// filled in when a violation is recorded
	Class   string `json:"class,omitempty"`
	Key     string `json:"key,omitempty"`
	Detail  string `json:"detail,omitempty"`
	RefTape []int  `json:"ref_tape,omitempty"`
}

// Verdict is the outcome of evaluating a case.
type Verdict struct {
	Idx        int              `json:"idx"`
	OK         bool             `json:"ok"`
	Skipped    string           `json:"skipped,omitempty"` // harness-side reason the case could not be judged
	Class      string           `json:"class,omitempty"`
	Key        string           `json:"key,omitempty"`
	Detail     string           `json:"detail,omitempty"`
	NonTrivial bool             `json:"nontrivial"`
	Hash       uint64           `json:"hash"`   // (program, schedule, faults) hash
	Digest     string           `json:"digest"` // event-log digest (determinism gate)
	Steps      int              `json:"steps"`
	Switches   int              `json:"switches"`
	MaxLive    int              `json:"max_live"`
	SimNS      int64            `json:"sim_ns"`
	Runs       int              `json:"runs"`
	Strategy   string           `json:"strategy"`
	Faults     []string         `json:"faults_fired,omitempty"`
	FaultFree  bool             `json:"fault_free"`
	Cancelled  bool             `json:"cancelled"`
	Probes     map[string]int64 `json:"probes,omitempty"`
	Kind       string           `json:"kind"`
	Sample     string           `json:"sample,omitempty"`
	Case       *Case            `json:"case,omitempty"` // with recorded tape, when !OK
}

// ------------------------------------------------------------------ generation

func GenCase(prop string, root uint64, idx int, tier string) *Case {
	seed := kit.RunSeed(root, prop, idx)
	r := kit.NewRand(seed)
	c := &Case{Property: prop, Idx: idx, Seed: seed, CancelStep: -1, PipeCap: genPipeCap(r.Fork("cap")), Strategy: genStrategy(r.Fork("strategy"))}
	if pr := r.Fork("params"); pr.Chance(1, 2) {
		c.Params = kit.Pick(pr, [][]string{{"one", "two", "three"}, {"p 1"}, {"a", "b", "c", "d", "e"}, {"x", ""}})
	}
	switch prop {
	case "C27":
		genC27(c, r)
	case "C29":
		genC29(c, r)
	case "C30":
		genC30(c, r)
	case "C31":
		genC31(c, r, idx, tier)
	case "C32":
		genC32(c, r)
	}
	return c
}

func genC27(c *Case, r *kit.Rand) {
	c.InFunc = r.Chance(1, 3)
	c.Kind = "isolation"
	c.Theme = genTheme(r.Fork("theme"))
	c.Setup = append(genSetup(r.Fork("setup"), c.InFunc), themeSetup(c.Theme, r.Fork("tsetup"))...)
	c.S = genMutationsT(r.Fork("S"), r.Range(1, 8), c.InFunc, false, c.Theme)
	c.Ctx = kit.Pick(r, isolatingContexts)
	if lr := r.Fork("lang"); lr.Chance(1, 8) {
		// parsed as zsh: its "&!" and "&|" start a (disowned) background job
		c.Lang = "zsh"
		c.Ctx = kit.Pick(lr, []string{"zsh-disown-bang", "zsh-disown-pipe", "background", "subshell", "coproc-like-bg-subshell"})
	}
	if c.Ctx == "background" || strings.HasPrefix(c.Ctx, "zsh-disown") || c.Ctx == "coproc-like-bg-subshell" || c.Ctx == "procsubst-out" || r.Chance(1, 4) {
		c.T = genMutationsT(r.Fork("T"), r.Range(0, 3), c.InFunc, true, c.Theme)
	}
	c.Faults = genFaults(r.Fork("faults"), []string{"mkfifo-fail", "fifo-open-fail", "exec-fail"})
	if len(c.T) > 0 {
		// Faults are counted per run, and the reference run has none: with
		// parent-side statements present a fault could land in T instead
		// of S and make the two runs differ for a reason that has nothing
		// to do with isolation.
		c.Faults = nil
	}
}

// c27Programs builds the test program (with S in its context) and the
// reference program (without S).
func (c *Case) c27Programs() (test, ref string) {
	body := func(withS bool) []string {
		var l []string
		l = append(l, c.Setup...)
		if withS {
			l = append(l, wrapContext(c.Ctx, c.S)...)
		}
		l = append(l, c.T...)
		l = append(l, "wait")
		l = append(l, dumpLines(c.InFunc)...)
		if c.InFunc {
			l = wrapInFunc(l)
		}
		return l
	}
	return joinProg(body(true)), joinProg(body(false))
}

func genC32(c *Case, r *kit.Rand) {
	switch r.Intn(10) {
	case 0, 1, 2:
		genC32Wait(c, r)
	case 3, 4:
		c.Kind = "subshell-api"
		c.Theme = genTheme(r.Fork("theme"))
		c.Setup = append(genSetup(r.Fork("setup"), false), themeSetup(c.Theme, r.Fork("tsetup"))...)
		c.Prog = genMutationsT(r.Fork("P"), r.Range(2, 6), false, true, c.Theme)
		c.Sub = genMutationsT(r.Fork("Sub"), r.Range(2, 6), false, true, c.Theme)
		c.Prog = append(c.Prog, "echo parent-done")
	default:
		c.Kind = "race"
		c.InFunc = r.Chance(1, 3)
		c.Theme = genTheme(r.Fork("theme"))
		c.Setup = append(genSetup(r.Fork("setup"), c.InFunc), themeSetup(c.Theme, r.Fork("tsetup"))...)
		c.S = genMutationsT(r.Fork("S"), r.Range(1, 5), c.InFunc, true, c.Theme)
		c.T = genMutationsT(r.Fork("T"), r.Range(1, 5), c.InFunc, true, c.Theme)
		c.Ctx = kit.Pick(r, []string{"background", "coproc-like-bg-subshell", "procsubst-out", "pipe-both", "bg-cmdsubst", "procsubst-in-bg", "two-bg", "bg-func", "pipe-all",
			"bg-outliving-subshell", "bg-outliving-cmdsubst", "procsubst-outliving-subshell", "bg-outliving-function-subshell", "bg-in-bg",
			"pipe-left-fatal", "pipe-all-left-fatal", "pipe-left-exits", "bg-fatal", "cmdsubst-fatal-in-bg",
			"bg-writes-into-cmdsubst", "bg-writes-into-cmdsubst-late", "procsubst-writes-into-cmdsubst"})
		if lr := r.Fork("lang"); lr.Chance(1, 10) {
			// parsed as zsh: "&!" and "&|" start (disowned) background jobs
			c.Lang = "zsh"
			c.Ctx = kit.Pick(lr, []string{"zsh-disown-bang", "zsh-disown-pipe", "zsh-disown-bang", "background", "pipe-both"})
		}
		if br := r.Fork("builtin-first"); c.Idx < 96 || br.Chance(1, 12) {
			// Both sides start with the same builtin call: package-level
			// state that a builtin initialises lazily races only on its
			// first use in a process, and the driver runs the first cases of
			// a batch in processes of their own.
			b := kit.Pick(br, []string{"help >/dev/null 2>&1", "help 'e*' >/dev/null 2>&1", "help w >/dev/null 2>&1", "type -a echo >/dev/null 2>&1", "hash 2>/dev/null", "times >/dev/null", "printf '%b %q\\n' 'a\\tb' \"$s1\" >/dev/null", "echo -e 'x\\ty' >/dev/null", "[[ abc =~ ^(a)(b) ]]", "[[ $s1 == f* ]]", "test -d /home/d1", "shopt >/dev/null", "set -o >/dev/null", "trap -l >/dev/null", "kill -l >/dev/null 2>&1", "getopts ab gopt -a", "read bv <<< x", "mapfile -t bm <<< x", "echo /home/d1/*.sh /home/**/g.sh >/dev/null", "echo {1..3} ~ $((1+2)) >/dev/null", "printf -v bpv %s x", "declare -p s1 >/dev/null", "alias >/dev/null", "dirs >/dev/null", "wait", "pwd >/dev/null", "cd . 2>/dev/null", "let 'bl=1+2'", "echo ${s1@Q} ${s1^^} >/dev/null", "eval ':'", "source /home/d1/g.sh >/dev/null 2>&1", "command -v echo >/dev/null", "builtin true", "umask >/dev/null 2>&1", "ulimit -n >/dev/null 2>&1", "enable >/dev/null 2>&1"})
			c.S = append([]string{b}, c.S...)
			c.T = append([]string{b}, c.T...)
		}
		c.Faults = genFaults(r.Fork("faults"), []string{"mkfifo-fail", "fifo-open-fail", "exec-fail", "short-read"})
		// The FIFO error paths are where a child goroutine reports through
		// runner fields; make sure they are reached often, and place the
		// fault on either side of the rendezvous.
		if (c.Ctx == "procsubst-out" || c.Ctx == "procsubst-in-bg") && r.Chance(1, 2) {
			c.Faults = append(c.Faults, Fault{Kind: "fifo-open-fail", N: r.Intn(2)})
		}
	}
}

func (c *Case) c32RaceProgram() string {
	S, T := strings.Join(c.S, "\n"), strings.Join(c.T, "\n")
	var l []string
	l = append(l, c.Setup...)
	switch c.Ctx {
	case "background":
		l = append(l, "{\n"+S+"\ntrue\n} &", T)
	case "coproc-like-bg-subshell":
		l = append(l, "(\n"+S+"\n) &", T)
	case "zsh-disown-bang":
		l = append(l, "{\n"+S+"\ntrue\n} &!", T, "sleep 3")
	case "zsh-disown-pipe":
		l = append(l, "{\n"+S+"\ntrue\n} &|", T, "sleep 3")
	case "procsubst-out":
		l = append(l, "emit 2 > >(\n"+S+"\ndrain >/dev/null\n)", T)
	case "pipe-both":
		l = append(l, "{\n"+S+"\nemit 2\n} | {\n"+T+"\ndrain >/dev/null\n}")
	case "pipe-all":
		l = append(l, "{\n"+S+"\nemit 2\n} |& {\n"+T+"\ndrain >/dev/null\n}")
	case "bg-cmdsubst":
		l = append(l, "{ x=$(\n"+S+"\necho v\n); } &", T)
	case "procsubst-in-bg":
		l = append(l, "cat <(\n"+S+"\nemit 1\n) >/dev/null &", T)
	case "two-bg":
		l = append(l, "{\n"+S+"\n} &", "{\n"+T+"\n} &", S)
	case "bg-func":
		l = append(l, "bgf() {\n"+S+"\n}", "bgf &", T, "bgf")
	case "bg-outliving-subshell":
		// the job is started inside a foreground subshell that ends at
		// once, so it keeps running while the parent goes on
		l = append(l, "( {\nsleep 1\n"+S+"\n} & )", T, "sleep 2", T)
	case "bg-outliving-cmdsubst":
		l = append(l, "x=$( {\nsleep 1\n"+S+"\n} >/dev/null 2>&1 & echo started )", T, "sleep 2", T)
	case "procsubst-outliving-subshell":
		l = append(l, "( : <(\nsleep 1\n"+S+"\n) )", T, "sleep 2", T)
	case "bg-outliving-function-subshell":
		l = append(l, "of() { ( {\nsleep 1\n"+S+"\n} & ); }", "of", T, "sleep 2", T)
	case "bg-writes-into-cmdsubst":
		// a job started inside $( ) writes to the substitution's output
		// while the substitution's own statements do, and afterwards
		l = append(l, "x=$( {\n"+S+"\necho from-job\n} & echo from-subst )", "y=$(echo second)", T, "echo \"$x|$y\" >/dev/null")
	case "bg-writes-into-cmdsubst-late":
		l = append(l, "x=$( {\nsleep 1\n"+S+"\necho late\n} & echo b )", "y=$(sleep 2; echo c)", T, "echo \"$x|$y\" >/dev/null")
	case "procsubst-writes-into-cmdsubst":
		l = append(l, "x=$( cat <(\n"+S+"\necho ps\n) & echo b )", "y=$(echo c)", T)
	case "pipe-left-fatal":
		// the left side ends in a fatal handler error while the right side
		// is still running statements
		l = append(l, "{\n"+S+"\nfatal\n} | {\n"+T+"\n"+T+"\ndrain >/dev/null\n}")
	case "pipe-all-left-fatal":
		l = append(l, "{\n"+S+"\nfatal\n} |& {\n"+T+"\ndrain >/dev/null\n"+T+"\n}")
	case "pipe-left-exits":
		l = append(l, "{\n"+S+"\nexit 3\n} | {\n"+T+"\ndrain >/dev/null\n"+T+"\n}")
	case "bg-fatal":
		l = append(l, "{\n"+S+"\nfatal\n} &", T)
	case "cmdsubst-fatal-in-bg":
		l = append(l, "{ x=$(\n"+S+"\nfatal\n); "+"\n"+S+"\n} &", T)
	case "bg-in-bg":
		l = append(l, "{ {\nsleep 1\n"+S+"\n} & "+"\n"+T+"\n} &", T, "sleep 2", S)
	}
	l = append(l, "wait", "echo done")
	if c.InFunc {
		l = wrapInFunc(l)
	}
	return joinProg(l)
}

func genC32Wait(c *Case, r *kit.Rand) {
	c.Kind = "wait"
	k := r.Range(1, 8)
	codes := make([]int, k)
	used := map[int]bool{}
	for i := range codes {
		for {
			v := r.Range(2, 120)
			if !used[v] {
				used[v], codes[i] = true, v
				break
			}
		}
	}
	saved := make([]bool, k)
	for i := 0; i < k; i++ {
		d := kit.Pick(r, []string{"0", "0.5", "1", "2", "3", "1.5"})
		switch r.Intn(6) {
		case 4:
			// a job that starts and waits for a job of its own: each shell
			// numbers only its own children
			c.Prog = append(c.Prog, fmt.Sprintf("{ (exit %d) & wait $!; sleep %s; exit %d; } &", 121+i, d, codes[i]))
		case 5:
			c.Prog = append(c.Prog, fmt.Sprintf("( sleep %s & (exit %d) & wait g2; wait; exit %d ) &", d, 131+i, codes[i]))
		case 0:
			c.Prog = append(c.Prog, fmt.Sprintf("(sleep %s; exit %d) &", d, codes[i]))
		case 1:
			c.Prog = append(c.Prog, fmt.Sprintf("{ sleep %s; fail %d; } &", d, codes[i]))
		case 2:
			c.Prog = append(c.Prog, fmt.Sprintf("fail %d &", codes[i]))
		default:
			c.Prog = append(c.Prog, fmt.Sprintf("{ x=$(emit 1); sleep %s; (exit %d); } &", d, codes[i]))
		}
		saved[i] = r.Chance(1, 3)
		if saved[i] {
			c.Prog = append(c.Prog, fmt.Sprintf("j%d=$!", i+1))
		}
		if r.Chance(1, 3) {
			c.Prog = append(c.Prog, kit.Pick(r, []string{"v=1", "echo between", ": $(emit 1)", "sleep 0.5"}))
			if strings.HasPrefix(c.Prog[len(c.Prog)-1], "echo") {
				c.Expect = append(c.Expect, "between")
			}
		}
		// a job id keeps naming its job whatever happens in between: a
		// plain wait, a wait for an earlier job, a job started and collected
		// by a function or subshell of its own
		switch r.Intn(12) {
		case 0:
			c.Prog = append(c.Prog, "wait; echo mid=$?")
			c.Expect = append(c.Expect, "mid=0")
		case 1:
			j := r.Intn(i + 1)
			c.Prog = append(c.Prog, fmt.Sprintf("wait g%d; echo early%d=$?", j+1, j+1))
			c.Expect = append(c.Expect, fmt.Sprintf("early%d=%d", j+1, codes[j]))
		case 2:
			c.Prog = append(c.Prog, "( (exit 99) & wait g1; echo inner=$? )")
			c.Expect = append(c.Expect, "inner=99")
		}
	}
	order := make([]int, k)
	for i := range order {
		order[i] = i
	}
	for i := k - 1; i > 0; i-- {
		j := r.Intn(i + 1)
		order[i], order[j] = order[j], order[i]
	}
	for _, j := range order {
		if saved[j] && r.Chance(1, 2) {
			c.Prog = append(c.Prog, fmt.Sprintf("wait $j%d; echo w%d=$?", j+1, j+1))
		} else {
			c.Prog = append(c.Prog, fmt.Sprintf("wait g%d; echo w%d=$?", j+1, j+1))
		}
		c.Expect = append(c.Expect, fmt.Sprintf("w%d=%d", j+1, codes[j]))
		if r.Chance(1, 4) { // waiting twice gives the same status
			c.Prog = append(c.Prog, fmt.Sprintf("wait g%d; echo again%d=$?", j+1, j+1))
			c.Expect = append(c.Expect, fmt.Sprintf("again%d=%d", j+1, codes[j]))
		}
	}
	if r.Chance(1, 2) {
		c.Prog = append(c.Prog, fmt.Sprintf("wait g%d 2>/dev/null; echo bad=$?", k+1+r.Intn(3)))
		c.Expect = append(c.Expect, "bad=1")
	}
	c.Prog = append(c.Prog, "wait; echo all=$?")
	c.Expect = append(c.Expect, "all=0")
}

var c29Pool = []string{
	"shopt -s expand_aliases", "alias ll='echo ll-alias '", "alias chain='ll '", "alias e2='echo {x,y}'",
	"ll {a,b}{1,2} tail", "chain ll e2 z", "e2 w",
	"set -x", "set +x", "set -x; arr[2]=$s1; set +x", "set -x; for v in a b c; do arr[0]=$v; done; set +x", "set -x; s1+=$s1 s2=$s1 true; ENVARR[1]=$s1; set +x", "set -x; declare -a xa=($s1 {1,2}); xa+=($s1); set +x", "set -x; [[ $s1 == f* ]]; (( n = 2 * 3 )); set +x", "set -x; f xt{1,2}; cat <<< $s1 >/dev/null; set +x",
	"declare -n nr=ENVSTR; nr=via-ref", "declare -n nra=ENVARR; nra[0]=via-ref; nra+=(more)", "declare -n nrm=ENVMAP; nrm[k]=via-ref", "export ENVMAP; ENVMAP[k]=after-export", "declare -x ENVARR; ENVARR[0]=after-declare", "declare -A ENVMAP; ENVMAP[z]=after-declare-A", "lx() { local -x ENVMAP; ENVMAP[k]=in-local; }; lx", "readonly ENVSPARSE; ENVSPARSE[2]=ro 2>/dev/null", ": ${ENVARR[0]:=d} ${ENVARR[5]=e} ${ENVMAP[nk]:=f} ${ENVSTR:=g}", "((ENVSTR=3))", "printf -v 'ENVARR[1]' %s pv 2>/dev/null", "getopts ab ENVSTR -a", "for ENVSTR in l1 l2; do :; done", "select_skip=1", "unset -v ENVMAP", "ENVARR=()", "declare -a ENVMAP2=(\"${ENVARR[@]}\"); ENVMAP2[0]=copy",
	"time -p true 2>/dev/null", "! false", "coproc_skip=1", "for ((i=0;i<2;i++)); do echo $i{a,b}; done", "until true; do :; done", "select_x=1", "echo ${s1@Q} ${s1^^} ${!s*} ${#arr[@]} ${arr[@]:1:2}", "echo $(< /home/f1.txt)", "x=$(( ${#s1} + 1 )); echo $x", "case $s1 in f*|g*) echo {c1,c2};; *) :;; esac", "[[ $s1 =~ ^(f)(o+)$ ]] && echo ${BASH_REMATCH[1]}", "ff() { local a1=$1; shift; echo \"$a1 $*\" {y,z}; }; ff {1,2} 3", "al2() { :; }; alias al2='echo aliased '; al2 ll x", "unalias ll 2>/dev/null", "eval 'ff e{1,2}' 2>/dev/null", "source /home/d1/g.sh", "trap 'echo {t1,t2}' ERR; false", "wait",
	"echo $s1{a,b}", "echo \"p q\"{1..3}", "echo {a,\"b c\"}.txt", "echo ${s1}{1,2}", "echo $(echo cs){x,y}", "echo '{q}'{1,2}$s1", "for i in $s1{x,y} \"z\"{1,2}; do echo $i; done", "arr3=($s1{a,b} \"q\"{1,2})", "export ex$s1{a,b}=1 2>/dev/null", "declare v$s1{1,2}=val 2>/dev/null", "ll $s1{m,n}", "cat <<< $s1{h,i}", "echo ~{a,b} {a,b}$((1+1))", "case $s1{a,b} in *) echo c;; esac", "[[ $s1{a,b} == f* ]] || true", "f $s1{p,q} | cat", "{ echo $s1{bg1,bg2}; } &",
	"declare -a arr=({1..3} $s1)", "declare v{1,2}=val", "export ex{a,b}=1", "local_fn() { local q{1,2}=z; echo $q1; }; local_fn",
	"echo x >&/home/o.txt", "true >&log 2>/dev/null", "f a >&$s1 2>/dev/null", "{ echo y; } >&/home/o2.txt", "for i in 1 2; do echo $i >&/home/o3.txt; done", "cat <&/home/f1.txt 2>/dev/null", "echo z &>>/home/o.txt", "echo w >|/home/o.txt", "cat <>/home/f1.txt >/dev/null", "exec 3<>/home/o.txt", "echo v 1>&2 2>&1", "echo u >&2-", "cat 0<&3- 2>/dev/null", "echo {fdv}>/home/o.txt 2>/dev/null",
	"fc() { # c1\n echo x # c2\n}\ndeclare -f fc", "# leading comment\nfc2() {\n# inside\n:\n}; declare -f fc2 >/dev/null; fc2", "declare -f f >/dev/null # trailing", "fc3() (\n# in subshell body\necho y\n)\ntype fc3 >/dev/null; declare -f fc3 fc fc2", "if true; then # c\n:\nfi # d", "case x in # c\nx) : ;; # d\nesac", "arr4=( # c\n1 # d\n2\n)", "echo $( # c\necho in # d\n)",
	"declare -A am; am=(a 1 b 2); am=(a 1 b 2)", "ENVMAP=(k1 v1 k2 v2)", "declare -A am2; am2=(k v o); am2+=(p q)", "amf() { local -A lm; lm=(a 1 b 2); }; amf; amf", "unset 'ENVSPARSE[5]'", "unset 'ENVSPARSE[-1]'", "unset 'ENVARR[-1]'", "for i in 1 2; do declare -A lm2; lm2=(x y z w); done",
	"for i in {1..3} x{a,b}; do echo $i; done", "arr2=({a,b} c [5]=d)", "arr2+=(e{1,2})", "s1+=x", "ENVARR+=x", "ENVARR+=(y z)", "ENVARR+=([1]=X)", "ENVARR+=([0]=Z w)", "ENVARR+=([-1]=neg)", "ENVSPARSE+=([2]=chg)", "ENVSPARSE+=([5]=chg [9]=far)", "ENVMAP+=([k]=new)", "ENVMAP+=([q]=1)", "ENVARR[1]+=app", "ENVMAP[k]+=app", "unset 'ENVSPARSE[2]'", "ENVARR=(${ENVARR[@]} more)", "read -a ENVARR <<< 'r1 r2'", "mapfile -t ENVARR <<< mapped", "declare -a ENVARR", "local_env() { local ENVARR; ENVARR+=(l); }; local_env", "f_env() { ENVARR[0]=in-func; ENVMAP[k]=in-func; }; f_env", "( ENVARR[0]=sub; ENVMAP[k]=sub )", "{ ENVARR+=([1]=bg); } &", "x=$(ENVARR[1]=cs; echo ${ENVARR[1]})", "ENVARR[0]=pipe | cat", "ENVARR[0]=changed", "ENVSPARSE[3]=new", "ENVSPARSE+=(w)", "ENVMAP[k]=changed", "ENVMAP[n]=1", "unset 'ENVMAP[k]'", "unset 'ENVARR[1]'", "unset ENVARR", "ENVSTR+=more", "unset ENVSTR", "export ENVSTR=re", "ENVRO=try 2>/dev/null", "declare -x ENVARR", "readonly ENVMAP",
	"cat <<EOF\nhere $s1 $(echo sub)\nEOF", "cat <<-EOF\n\ttabbed $s1\n\tline2\n\tEOF", "cat <<'EOF'\nliteral $s1\nEOF", "cat <<< \"hs $s1\"",
	"f() { echo \"in f: $*\"; return 3; }", "f {p,q} || true", "f a b &", "f x | cat", "trap 'echo trapped' EXIT", "trap 'echo err-trap' ERR", "false", "g() { f inner; }; g",
	"x=$(echo {1,2} | cat)", "echo $(f c{1,2}) >/dev/null", "cat <(echo {m,n}) >/dev/null", "echo pre{fix,sent} > /home/out.txt", "cat < /home/f1.txt", "cat /home/f2.txt | drain",
	"{ echo bg{1,2}; sleep 1; } &", "wait", "( s1=sub; echo $s1 {u,v} )", "if true; then echo {t1,t2}; fi", "case x{1,2} in x*) echo matched;; esac", "while read l; do echo \"l=$l\"; done < /home/f2.txt",
	"echo ${s1/o/{a,b}}", "echo \"${arr[@]}\" ${#arr[@]}", "[[ $s1 == f* ]] && echo yes", "(( n = 1 + 2 )); echo $n", "select_done=1", "eval 'echo ev{1,2}'", "time echo timed >/dev/null",
}

func genC29(c *Case, r *kit.Rand) {
	c.Kind = "tree-env"
	c.EnvArrays = true
	c.Setup = []string{"s1=foo"}
	n := r.Range(3, 12)
	sg := &sysGen{r: r.Fork("sys"), env: true}
	for i := 0; i < n; i++ {
		if r.Chance(2, 5) {
			c.Prog = append(c.Prog, sg.Stmt())
			continue
		}
		c.Prog = append(c.Prog, kit.Pick(r, c29Pool))
	}
	if r.Chance(1, 4) {
		c.CancelStep = r.Intn(60)
	}
	c.Faults = genFaults(r.Fork("faults"), []string{"open-enoent", "open-eacces", "open-fatal", "exec-fail", "exec-fatal", "mkfifo-fail", "fifo-open-fail", "short-read"})
}

var c30HistPool = []string{
	"hv=1", "export hx=2", "readonly hr=3", "harr=(1 2 3)", "declare -A hm=([a]=b)", "hf() { echo hf; }", "shopt -s expand_aliases", "alias ha='echo ha'",
	"set -o noglob", "set -o errexit", "set -o nounset", "set -o pipefail", "shopt -s nullglob", "shopt -s dotglob", "set -o allexport",
	"cd /home/d1", "cd /", "pushd /home/d2 >/dev/null", "set -- h1 h2", "shift",
	"trap 'echo hist-exit-trap' EXIT", "trap 'echo hist-err-trap' ERR", "false", "fail 3", "exit 7", "fatal",
	"exec > /home/out.txt", "exec 2>/dev/null", "exec < /home/f2.txt", "sleep 50 &", "{ sleep 20; } &", "(sleep 5; exit 2) &", "sleep 3", "echo hist-out", "echo hist-err >&2",
	"IFS=:", "OPTIND=4", "getopts ab o -a", "read hv <<< x", "PS1=p", "HOME=/changed", "unset HOME", "PATH=/nowhere", "s1=from-history", "a=(from history)", "f1() { echo from-history; }", "unset IFS",
	"true <&-", "{ :; } <&-", "echo x >&- 2>/dev/null", "true 2>&-", ": 3<&0 <&-", "read hz <&- 2>/dev/null", "hf <&- 2>/dev/null", "( : ) <&-", "true <&- &", "x=$(true <&-)", "true | cat <&- 2>/dev/null", "eval ':' <&-", "exec 3<&0", "exec 3<&-",
	"cat <(sleep 10) &", "while true; do sleep 1; done", "read hist_line < /home/f2.txt", "wait",
}

var c30ProgPool = []string{
	"echo start", "echo \"s1=${s1-UNSET} hv=${hv-UNSET} hx=${hx-UNSET} hr=${hr-UNSET}\"", "echo \"arr=${harr[*]-UNSET} a=${a[*]-UNSET} m=${hm[a]-UNSET}\"",
	"declare -f hf f1 2>&1; alias 2>&1", "shopt 2>&1 | head1", "set +o 2>&1", "pwd; dirs", "echo \"params:$#:$*\"", "echo \"IFS=[$IFS] OPTIND=$OPTIND HOME=$HOME PATH=$PATH\"",
	"cd d1 2>&1; pwd", "x=1; echo $x", "false", "fail 4", "echo after-fail", "s1=p; a=(p q); echo ${a[1]}", "f1() { echo p-f1; }; f1", "ha 2>&1", "hf 2>&1",
	"read line; echo \"read=[$line] rc=$?\"", "cat", "echo to-stderr >&2", "wait; echo waited=$?", "echo $unset_var_ref", "emit 2 | drain", "x=$(echo sub); echo $x", "cat < /home/f1.txt", "echo out > /home/p.txt; cat /home/p.txt",
	"wait g1 2>&1; echo wg1=$?", "true & wait g1; echo first-job=$?", "(exit 4) & wait $!; echo last-job=$?", "true & echo last=$!", "wait g2 2>&1; echo wg2=$?",
	"for i in 1 2; do echo $i; break 2; done", "for j in a b c; do echo $j; n=$j; done", "while true; do break 5; done", "for k in x y; do continue 2; echo unreached; done", "until false; do echo once; break; done", "i=0; while [ $i -lt 3 ]; do i=$((i+1)); echo i=$i; done",
	"shopt -s -o nounset", "shopt -u -o nounset", "shopt -s -o noglob", "shopt -u -o noglob", "shopt -s -o errexit", "shopt -s -o pipefail", "set -f", "set +f", "set +u", "set -o noglob", "shopt -s nullglob", "shopt -s extglob", "shopt -s globstar", "shopt -u expand_aliases",
	// an option toggled by one top-level statement and observed by the next
	"shopt -s -o nounset\necho \"[$undef_var]\"", "shopt -s -o noglob\necho /home/d1/*.sh", "set -u\nshopt -u -o nounset\necho \"[$undef_var]\"", "set -f\nshopt -u -o noglob\necho /home/d1/*.sh",
	"set -f -Q 2>/dev/null\necho /home/d1/*.sh", "set -u -Q 2>/dev/null\necho \"[$undef_var]\"", "set -o noglob -o nosuchopt 2>/dev/null\necho /home/d1/*.sh", "shopt -s nullglob nosuchopt 2>/dev/null\necho /home/d1/nomatch*",
	"set -u\necho \"[$undef_var]\"", "set -f\necho /home/d1/*.sh", "shopt -s nullglob\necho /home/d1/nomatch*", "shopt -s dotglob\necho /home/d1/*", "shopt -s extglob\necho /home/d1/@(g|loop).sh", "shopt -s globstar\necho /home/**/g.sh", "shopt -s nocaseglob\necho /home/d1/G*",
	"set -o pipefail\nfalse | true\necho rc=$?", "set -e\nfalse\necho not-reached", "set -o allexport\nav=1\ndeclare -p av", "shopt -s expand_aliases\nalias ea='echo ea-body'\nea", "IFS=:\nv=a:b\necho $v", "OPTIND=1\ngetopts ab o -a -b\ngetopts ab o -a -b\necho $o$OPTIND",
	"echo \"[$undef_var]\"", "echo /home/d1/*.sh", "files=(/home/d1/*); echo ${#files[@]}", "echo /home/d1/nomatch*", "echo ${undef_arr[0]-dflt} \"${undef2:-x}\"", "echo /home/d1/@(g|loop).sh", "echo /home/**/g.sh",
	"echo rc=$?", "echo rc=$?", "f_ret() { return 3; }; f_ret", "( exit 6 )", "true | false", "! true", "x=$(fail 9)", "getopts ab o -b; echo \"o=$o OPTIND=$OPTIND\"", "shift 2>/dev/null; echo \"params:$#\"", "local_top=1 2>&1", "trap 'echo p-exit' EXIT", "alias pa='echo pa'; shopt -s expand_aliases", "pa 2>&1",
	"fatal", "fatal", "x=$(fatal)", "(fatal); echo after-subshell-fatal", "fatal | cat", "cat < /nonexistent-fatal 2>&1", "PWD=/gone; pwd -P 2>&1",
	"type echo >/dev/null; echo rc=$?", "exit 5", "echo unreachable-maybe", "set -e", "set -u", "trap 'echo p-err' ERR",
}

// c30StatusTriple composes three consecutive top-level statements: one that
// ends in a chosen status, one "quiet" statement of any kind, one that
// observes the last status.
func c30StatusTriple(r *kit.Rand) string {
	set := kit.Pick(r, []string{"false", "(exit 7)", "fail 3", "! true", "f_ret3() { return 3; }; f_ret3", "true", "x=$(fail 9)", "[[ a == b ]]", "(( 0 ))", "true | false"})
	mid := kit.Pick(r, []string{
		"true &", ": &", "sleep 1 &", "{ false; } &", "(exit 4) &", "fail 2 &", "x=1 &",
		"x=1", "y=$(true)", "y=$(false)", ": > /home/o.txt", "f_noop() { :; }", "declare z", "export E=1", "{ :; }", "if false; then :; fi", "while false; do :; done",
		"for i in; do :; done", "case x in y) ;; esac", "wait", "eval ''", "eval", "unset nope", "alias q=r", "trap - INT", "shift 0", "cd .", "v=$?", "readonly ro9=1", ": <(true)", "[[ a == a ]]", "(( 1 ))", "! false", "true | true",
	})
	obs := kit.Pick(r, []string{"echo rc=$?", "st=$?; echo st=$st", "exit", "if [ $? -ne 0 ]; then echo nonzero; else echo zero; fi", "( exit )\necho rc=$?", "f_obs() { return; }; f_obs; echo rc=$?", "exit $?", "echo $(echo in-subst $?)", "$(exit $?) ; echo rc=$?"})
	return set + "\n" + mid + "\n" + obs
}

// c30StateTriple composes consecutive top-level statements around one piece
// of shell state: one to three changes, then an observer.
func c30StateTriple(r *kit.Rand) string {
	type facet struct{ change, observe []string }
	facets := []facet{
		{[]string{"IFS=:", "IFS=',;'", "IFS=''", "IFS=x", "unset IFS", "IFS=' '", "IFS=", "local IFS 2>/dev/null", "declare IFS=:"}, []string{"x=a:b,c; set -- $x; echo $# \"$*\"", "read p q <<< 'a:b c'; echo \"$p|$q\"", "v='a:b:c'; for w in $v; do echo \"[$w]\"; done", "set -- a b; echo \"$*\" $*", "arr=(a:b c); echo \"${arr[*]}\""}},
		{[]string{"getopts ab o -a -b", "OPTIND=1", "OPTIND=3", "unset OPTIND", "getopts a:b o -a arg", "unset OPTARG"}, []string{"getopts ab o -a -b; echo \"$o $OPTIND ${OPTARG-unset}\"", "echo \"$OPTIND ${OPTARG-unset}\""}},
		{[]string{"HOME=/h1", "unset HOME", "HOME=", "export HOME=/h2"}, []string{"echo ~ ~/x", "cd 2>&1; pwd"}},
		{[]string{"cd /home/d1", "cd ..", "cd /", "cd - >/dev/null", "OLDPWD=/fake", "PWD=/fake"}, []string{"cd - 2>&1; pwd", "echo $OLDPWD $PWD", "pwd"}},
		{[]string{"set -- a b c", "shift", "set --", "shift 2", "set -- \"$@\" x"}, []string{"echo $# $1 \"$*\"", "for p; do echo p=$p; done"}},
		{[]string{"set -f", "set +f", "shopt -s nullglob", "shopt -u nullglob", "set -o noglob", "shopt -s dotglob"}, []string{"echo /home/d1/*.sh /home/d1/nomatch*", "files=(/home/d1/*); echo ${#files[@]}"}},
		{[]string{"alias q='echo q1'", "unalias q", "shopt -s expand_aliases", "shopt -u expand_aliases", "alias q='echo q2 '", "unalias -a"}, []string{"q 2>&1", "alias 2>&1", "type q 2>&1"}},
		{[]string{"ff() { echo 1; }", "unset -f ff", "ff() { echo 2; }", "unset ff"}, []string{"ff 2>&1", "declare -f ff 2>&1", "type ff 2>&1"}},
		{[]string{"trap 'echo err-trap' ERR", "trap - ERR", "trap '' ERR", "trap 'echo dbg' DEBUG", "trap - DEBUG"}, []string{"false", "trap", "(exit 3); echo after"}},
		{[]string{"arr=(1 2 3)", "unset 'arr[1]'", "arr+=(4)", "arr[5]=x", "unset arr", "declare -a arr 2>/dev/null", "arr=()"}, []string{"echo \"${arr[@]}\" ${#arr[@]} ${!arr[@]}", "declare -p arr 2>&1"}},
		{[]string{"true | false | true", "false | true", "true", "(exit 3) | (exit 4)"}, []string{"echo ${PIPESTATUS[@]}", "echo $? ${PIPESTATUS[0]}"}},
		{[]string{"[[ abc =~ (b)(c) ]]", "[[ x =~ y ]]", "[[ abc =~ a ]]"}, []string{"echo \"${BASH_REMATCH[@]}\" ${#BASH_REMATCH[@]}"}},
		{[]string{"read <<< r1", "read v <<< r2", "REPLY=r3", "unset REPLY"}, []string{"echo \"${REPLY-unset}\""}},
		{[]string{"pushd /home/d1 >/dev/null", "popd >/dev/null 2>&1", "pushd /home/d2 >/dev/null", "dirs -c", "pushd >/dev/null 2>&1"}, []string{"dirs", "echo \"${DIRSTACK[@]}\""}},
		{[]string{"set -u", "set +u", "set -e", "set +e", "set -o pipefail", "set +o pipefail", "set -a", "set +a"}, []string{"echo \"[${undef_v-}]\" $-", "false | true; echo rc=$?", "av=1; declare -p av", "set +o"}},
		{[]string{"export ex1=1", "export -n ex1", "unset ex1", "ex1=2", "declare -x ex1", "declare +x ex1", "readonly ro1=1", "ro1=2 2>/dev/null"}, []string{"declare -p ex1 ro1 2>&1", "echo ${ex1-unset} ${ro1-unset}"}},
	}
	f := facets[r.Intn(len(facets))]
	var lines []string
	for i := r.Range(1, 3); i > 0; i-- {
		lines = append(lines, kit.Pick(r, f.change))
	}
	lines = append(lines, kit.Pick(r, f.observe))
	if r.Chance(1, 3) {
		lines = append(lines, kit.Pick(r, f.change), kit.Pick(r, f.observe))
	}
	return strings.Join(lines, "\n")
}

func genC30(c *Case, r *kit.Rand) {
	if r.Chance(1, 4) {
		c.Kind = "incremental"
		isg := &sysGen{r: r.Fork("sys")}
		n := r.Range(3, 10)
		for i := 0; i < n; i++ {
			s := kit.Pick(r, c30ProgPool)
			if r.Chance(1, 4) {
				s = c30StatusTriple(r)
			} else if r.Chance(1, 3) {
				s = c30StateTriple(r)
			} else if r.Chance(1, 3) {
				s = isg.Stmt()
			}
			if strings.Contains(s, "EXIT") || (strings.Contains(s, "trap") && (strings.HasSuffix(s, " 0") || strings.Contains(s, " 0;") || strings.Contains(s, " 0\n"))) {
				continue // the documented exception: only a whole-file run fires the EXIT trap
			}
			c.Prog = append(c.Prog, s)
		}
		if r.Chance(1, 2) {
			c.Prog = append(c.Prog, dumpLines(false)...)
		}
		c.Stdin = kit.Pick(r, []string{"nil", "data:in1\nin2\n", "closed"})
		c.Strategy = Strategy{Kind: "sequential"}
		return
	}
	c.Kind = "reset"
	sg := &sysGen{r: r.Fork("sys")}
	nh := r.Range(1, 6)
	for i := 0; i < nh; i++ {
		h := HistProg{CancelStep: -1, Reset: r.Chance(1, 5)}
		for j := r.Range(1, 5); j > 0; j-- {
			if r.Chance(1, 3) {
				h.Lines = append(h.Lines, sg.Stmt())
				continue
			}
			if r.Chance(1, 6) {
				h.Lines = append(h.Lines, c30StateTriple(r))
				continue
			}
			h.Lines = append(h.Lines, kit.Pick(r, c30HistPool))
		}
		if r.Chance(1, 4) {
			h.CancelStep = r.Intn(25)
		}
		if r.Chance(1, 4) {
			h.Faults = genFaults(r.Fork("hf"), []string{"open-enoent", "open-fatal", "exec-fail", "exec-fatal", "mkfifo-fail"})
		}
		c.History = append(c.History, h)
	}
	n := r.Range(2, 8)
	for i := 0; i < n; i++ {
		if r.Chance(1, 8) {
			c.Prog = append(c.Prog, c30StatusTriple(r))
			continue
		}
		if r.Chance(1, 6) {
			c.Prog = append(c.Prog, c30StateTriple(r))
			continue
		}
		c.Prog = append(c.Prog, kit.Pick(r, c30ProgPool))
	}
	if r.Chance(1, 2) {
		// P ends by printing all the state the composed statements can touch
		c.Prog = append(c.Prog, dumpLines(false)...)
	}
	c.Stdin = kit.Pick(r, []string{"nil", "nil", "data:in1\nin2\nin3\nin4\n", "closed"})
	if r.Chance(1, 5) {
		// One history program blocks reading the runner's own stdin, which
		// stays silent until P starts, and is cancelled there (it consumed
		// nothing); P then reads the input that arrives with it.
		c.Stdin = "latedata:in1\nin2\nin3\nin4\n"
		h := &c.History[r.Intn(len(c.History))]
		h.Lines = append(h.Lines, kit.Pick(r, c30StdinBlockers))
		h.CancelStep = kit.Pick(r, []int{40, 60, r.Intn(25)})
		c.Prog = append(c.Prog, "")
		at := r.Intn(len(c.Prog))
		copy(c.Prog[at+1:], c.Prog[at:])
		c.Prog[at] = kit.Pick(r, c30StdinReaders)
	}
}

// c30StdinBlockers block on the runner's stdin for as long as it is silent.
var c30StdinBlockers = []string{
	"read hx", "read -r -a harr", "mapfile -t hm", "readarray hra", "select ho in a b; do :; done", "while read hl; do echo $hl; done",
	"read -s hs", "read -n 2 hn", "hf() { read hz; }; hf", "read -p prompt hp", "until read hu; do :; done",
}

// c30StdinReaders are statements of P that read the runner's stdin.
var c30StdinReaders = []string{
	"read p1; read p2; echo \"got <$p1> <$p2> $?\"", "mapfile -t pm; echo ${#pm[@]} ${pm[0]}", "while read pl; do echo \"line $pl\"; done", "read -a pa; echo ${pa[0]} $?",
	"read -n 2 pn; echo \"$pn\"; read rest; echo \"$rest\"", "cat", "select po in a b; do echo \"$po $REPLY\"; break; done 2>/dev/null", "read p1 && echo ok-$p1 || echo failed-read",
}

// hangsForever reports whether a history program can block forever (then it
// must be ended by cancellation, or the history never reaches P).
func hangsForever(lines []string) bool {
	for _, l := range lines {
		if strings.HasPrefix(l, "while true") {
			return true
		}
		for _, b := range c30StdinBlockers {
			if l == b {
				return true
			}
		}
	}
	return false
}

// c31Pool: (name, program lines, stdin). Every program blocks or loops
// forever, so a cancelled Run must return a non-nil error.
type c31Prog struct {
	name  string
	lines []string
	stdin string
}

var c31Pool = []c31Prog{
	{"while-true", []string{"while true; do :; done"}, "nil"},
	{"until-false", []string{"until false; do x=1; done"}, "nil"},
	{"for-ever", []string{"for ((;;)); do :; done"}, "nil"},
	{"loop-sleep", []string{"while true; do sleep 1; done"}, "nil"},
	{"loop-func", []string{"f() { while :; do :; done; }", "f"}, "nil"},
	{"loop-cmdsubst", []string{"x=$(while true; do :; done)"}, "nil"},
	{"loop-subshell", []string{"( while true; do sleep 0.1; done )"}, "nil"},
	{"read-silent-stdin", []string{"read x"}, "silent"},
	{"read-array-silent-stdin", []string{"read -a arr"}, "silent"},
	{"read-loop-silent-stdin", []string{"while read l; do echo $l; done"}, "silent"},
	{"mapfile-silent-stdin", []string{"mapfile lines"}, "silent"},
	{"select-silent-stdin", []string{"select o in a b; do echo $o; done"}, "silent"},
	{"cat-silent-stdin", []string{"cat"}, "silent"},
	{"cat-silent-stdin-pipe", []string{"cat | drain"}, "silent"},
	{"read-in-cmdsubst", []string{"x=$(read y; echo $y)"}, "silent"},
	{"read-in-function", []string{"g() { read z; }", "g"}, "silent"},
	{"bg-sleep-wait", []string{"sleep 1000 &", "wait"}, "nil"},
	{"bg-sleep-wait-job", []string{"sleep 1000 &", "wait g1"}, "nil"},
	{"bg-loop-wait", []string{"while true; do :; done &", "wait"}, "nil"},
	{"bg-read-wait", []string{"read q &", "wait g1"}, "silent"},
	{"two-bg-wait", []string{"sleep 500 &", "{ sleep 900; } &", "wait g2", "wait"}, "nil"},
	{"procsubst-unopened-wait", []string{": <(echo hi)", "wait"}, "nil"},
	{"procsubst-out-unopened-wait", []string{": >(cat)", "wait"}, "nil"},
	{"procsubst-unopened-wait-job", []string{": <(echo hi)", "wait g1"}, "nil"},
	{"procsubst-out-unopened-wait-job", []string{": >(cat)", "wait g1"}, "nil"},
	{"bg-then-procsubst-wait-jobs", []string{"true &", ": <(echo x)", "wait g1 g2"}, "nil"},
	{"procsubst-unopened-wait-in-subshell", []string{"( : <(echo hi); wait g1 )"}, "nil"},
	{"procsubst-unopened-wait-in-function", []string{"pw() { : <(echo hi); wait; }", "pw"}, "nil"},
	{"until-wait-job", []string{"sleep 1000 &", "until wait g1; do :; done"}, "nil"},
	{"for-cstyle-sleep", []string{"for ((i=0;;i++)); do sleep 1; done"}, "nil"},
	{"for-cstyle-in-function", []string{"cf() { for ((;;)); do :; done; }", "cf"}, "nil"},
	{"for-cstyle-read", []string{"for ((;;)); do read x; done"}, "silent"},
	{"for-in-endless-inner", []string{"for i in 1 2 3; do while :; do :; done; done"}, "nil"},
	{"until-read", []string{"until read x; do :; done"}, "silent"},
	{"case-in-loop", []string{"while :; do case x in x) :;; esac; done"}, "nil"},
	{"if-in-loop-cmdsubst", []string{"while :; do if [[ $(echo a) == a ]]; then :; fi; done"}, "nil"},
	{"select-then-loop", []string{"select o in a b; do :; done; while :; do :; done"}, "silent"},
	{"read-array-in-loop", []string{"while :; do read -a arr; done"}, "silent"},
	{"mapfile-in-function", []string{"mf() { mapfile -t lines; }", "mf"}, "silent"},
	{"read-in-pipe-last", []string{"sleep 1000 | read x"}, "nil"},
	{"read-timeoutless-in-bg-wait", []string{"{ read y; } &", "wait"}, "silent"},
	{"eval-loop", []string{"eval 'while :; do :; done'"}, "nil"},
	{"source-loop", []string{"source /home/d1/loop.sh"}, "nil"},
	{"trap-exit-loop", []string{"trap 'echo bye' EXIT", "while :; do :; done"}, "nil"},
	{"arith-loop", []string{"while ((1)); do ((x++)); done"}, "nil"},
	{"exit-trap-endless", []string{"trap 'while true; do :; done' EXIT", "echo body"}, "nil"},
	{"err-trap-endless", []string{"trap 'while true; do :; done' ERR", "false", "echo after"}, "nil"},
	{"exit-trap-endless-after-loop", []string{"trap 'until false; do :; done' EXIT", "while true; do :; done"}, "nil"},
	{"exit-trap-sleep-loop", []string{"trap 'while :; do sleep 1; done' EXIT", "exit 3"}, "nil"},
	{"err-trap-read", []string{"trap 'read z' ERR", "false"}, "silent"},
	{"exit-trap-wait", []string{"trap 'wait' EXIT", "sleep 1000 &"}, "nil"},
	{"function-trap-loop", []string{"tf() { while :; do :; done; }", "trap tf EXIT", "true"}, "nil"},
	{"left-fills-pipe-right-blocks", []string{"while :; do echo yyyyyyyyyyyyyyyyyyyyyyyyyyyyyyyyyyyyyyyyyyyyyyyyyyyyyy; done | stubborn"}, "nil"},
	{"left-fills-pipe-right-reads-one", []string{"while :; do echo yyyyyyyyyyyyyyyyyyyyyyyyyyyyyyyyyyyyyy; done | { read x; sleep 1000; }"}, "nil"},
	{"left-fills-pipe-all-right-sleeps", []string{"while :; do echo yyyyyyyyyyyyyyyyyyyyyyyyyyyyyy; done |& sleep 1000"}, "nil"},
	{"yes-into-sleeping-block", []string{"yes | { sleep 1000; }"}, "nil"},
	{"cstyle-loop-exit-0", []string{"for ((;;)); do exit 0; done"}, "nil"},
	{"cstyle-loop-bare-exit", []string{"for ((;;)); do exit; done", "echo after"}, "nil"},
	{"cstyle-loop-return-in-function", []string{"cf2() { for ((;;)); do return; done; }", "cf2", "while true; do :; done"}, "nil"},
	{"source-endless-lines", []string{"source /dev/yes"}, "nil"},
	{"dot-endless-lines-in-function", []string{"sf() { . /dev/yes; }", "sf"}, "nil"},
	{"four-readers-one-stdin", []string{"read a & read b & read c & read d", "wait"}, "silent"},
	{"three-readers-one-stdin-wait-jobs", []string{"read a &", "read b &", "mapfile c &", "wait g1 g2 g3"}, "silent"},
	{"readers-in-pipeline-and-job", []string{"read a | read b & read c", "wait"}, "silent"},
	{"cmdsubst-file-endless", []string{"x=$(< /dev/zero)"}, "nil"},
	{"cmdsubst-file-endless-lines", []string{"echo \"$(< /dev/yes)\""}, "nil"},
	{"read-endless-device", []string{"read x < /dev/zero"}, "nil"},
	{"read-array-endless-device", []string{"read -r -a arr < /dev/zero"}, "nil"},
	{"mapfile-endless-lines", []string{"mapfile -t lines < /dev/yes"}, "nil"},
	{"read-loop-endless-lines", []string{"while read l; do :; done < /dev/yes"}, "nil"},
	{"select-endless-lines", []string{"select o in a b; do :; done < /dev/yes"}, "nil"},
	{"read-d-endless-lines", []string{"read -d '' x < /dev/yes"}, "nil"},
	{"procsubst-unopened-in-cmdsubst", []string{"x=$(echo <(echo hi))"}, "nil"},
	{"procsubst-out-unopened-in-cmdsubst", []string{"echo \"got $(: >(read line))\""}, "nil"},
	{"if-subshell-loop", []string{"if (while true; do :; done); then echo y; fi", "echo after"}, "nil"},
	{"while-subshell-read-wait", []string{"while (read x & wait); do :; done", "echo after"}, "silent"},
	{"negated-subshell-loop", []string{"! (while true; do :; done)", "echo after"}, "nil"},
	{"select-in-pipe", []string{"select o in a b; do echo $o; done | drain"}, "silent"},
	{"select-after-reply", []string{"select o in a b; do echo got; done"}, "datasilent:1\n"},
	{"read-n-silent", []string{"read -n 3 x"}, "silent"},
	{"read-p-silent", []string{"read -p prompt x"}, "silent"},
	{"read-s-silent", []string{"read -s x"}, "silent"},
	{"read-d-silent", []string{"read -d : x"}, "silent"},
	{"read-r-loop-silent", []string{"while read -r -a f; do :; done"}, "silent"},
	{"mapfile-in-loop", []string{"while :; do mapfile -t ls; done"}, "silent"},
	{"readarray-silent", []string{"readarray arr"}, "silent"},
	{"nested-cmdsubst-loop", []string{"x=$(y=$(while :; do :; done))"}, "nil"},
	{"pipe-all-loop", []string{"while :; do echo e >&2; done |& drain"}, "nil"},
	{"cmdsubst-file-loop", []string{"while :; do x=$(< /home/f1.txt); done"}, "nil"},
	{"herestring-loop", []string{"while :; do read v <<< val; done"}, "nil"},
	{"heredoc-loop", []string{"while :; do cat <<EOF >/dev/null\nbody\nEOF\ndone"}, "nil"},
	{"brace-group-bg-loops", []string{"{ while :; do :; done; } &", "{ until false; do :; done; } &", "wait g1 g2"}, "nil"},
	{"procsubst-opened-unread", []string{"sleep 1000 < <(yes)"}, "nil"},
	{"procsubst-slow-reader", []string{"while read l; do sleep 5; done < <(yes)"}, "nil"},
	{"pipe-blocked-left", []string{"cat | drain"}, "silent"},
	{"pipe-blocked-right", []string{"yes | sleep 1000"}, "nil"},
	{"pipe-loop-left", []string{"while true; do echo y; done | drain"}, "nil"},
	{"pipe-three", []string{"yes | cat | sleep 1000"}, "nil"},
	{"heredoc-writer-blocked", []string{"sleep 1000 <<EOF\n" + strings.Repeat("0123456789abcdef\n", 40) + "EOF"}, "nil"},
	{"herestring-writer-blocked", []string{"sleep 1000 <<< " + strings.Repeat("x", 300)}, "nil"},
	{"sleep-fg", []string{"sleep 1000"}, "nil"},
	{"sleep-in-cmdsubst", []string{"x=$(sleep 1000)"}, "nil"},
	{"stubborn", []string{"while true; do stubborn 1.5; done"}, "nil"},
	{"stubborn-bg-wait", []string{"stubborn 2 &", "while true; do :; done"}, "nil"},
	{"nested-bg-wait", []string{"( sleep 1000 & wait ) &", "wait"}, "nil"},
	{"wait-in-function", []string{"w() { sleep 1000 & wait; }", "w"}, "nil"},
	{"coproc-like", []string{"{ while read l; do echo $l; done; } < <(sleep 1000) &", "wait"}, "nil"},
}

var c31Prefix = []string{"set -o pipefail", "set -o pipefail", "set -e", "shopt -s lastpipe 2>/dev/null", "set -o errexit -o pipefail", "trap 'echo t' ERR", "a=1", "echo start", "f0() { :; }", "x=$(echo sub)", "for i in 1 2 3; do :; done", "emit 1 | drain >/dev/null", "sleep 1", "(b=2)", "true &", "cat < /home/f1.txt >/dev/null"}

func genC31(c *Case, r *kit.Rand, idx int, tier string) {
	p := c31Pool[idx%len(c31Pool)]
	if idx >= 24*len(c31Pool) {
		// beyond the enumerated (shape, step) pairs: composed programs
		p.name, p.lines, p.stdin = genC31Composed(r.Fork("composed"))
	}
	c.Kind = p.name
	c.Stdin = p.stdin
	for i := r.Intn(4); i > 0; i-- {
		c.Setup = append(c.Setup, kit.Pick(r, c31Prefix))
	}
	c.Prog = append([]string{}, p.lines...)
	// The Runner may have been used before: the context that counts is the
	// one given to the Run call that is cancelled, not an earlier one.
	if r.Chance(1, 3) {
		for i := r.Range(1, 2); i > 0; i-- {
			c.Warm = append(c.Warm, kit.Pick(r, []string{"w=$(echo warm)", "echo hi >/dev/null", "cat <(echo x) >/dev/null", "wf() { :; }", "true &\nwait", "read w <<< x", "w=$(echo a | cat)", "sleep 1", "echo ${w:-$(echo dflt)} >/dev/null", "emit 1 | drain"}))
		}
	}
	c.PerStmt = r.Chance(1, 8)
	// Cancellation steps are spread over the execution: the low steps are
	// enumerated by construction (idx / pool size), later ones are drawn.
	k := (idx / len(c31Pool))
	if k < 24 {
		c.CancelStep = k
	} else {
		c.CancelStep = r.Intn(120)
	}
}

// ------------------------------------------------------------------ evaluation

func baseSpec(c *Case) RunSpec {
	stdin := c.Stdin
	if stdin == "" {
		stdin = "nil"
	}
	return RunSpec{Strategy: c.Strategy, CancelStep: -1, CancelProg: -1, PipeCap: c.PipeCap, FaultProg: -1, Stdin: stdin, Files: simDirs, StdoutFail: -1, EnvArrays: c.EnvArrays, Params: c.Params, Lang: c.Lang}
}

func seqSpec(c *Case) RunSpec {
	s := baseSpec(c)
	s.Strategy = Strategy{Kind: "sequential"}
	if c.RefTape != nil {
		s.Strategy = Strategy{Kind: "tape", Tape: c.RefTape}
	}
	return s
}

func afterDump(out string) string {
	if i := strings.Index(out, "===DUMP==="); i >= 0 {
		return canonOutput(out[i:])
	}
	return "<no dump marker in output>"
}

func firstLineDiff(a, b string) string {
	la, lb := strings.Split(a, "\n"), strings.Split(b, "\n")
	for i := 0; i < len(la) || i < len(lb); i++ {
		x, y := "<end>", "<end>"
		if i < len(la) {
			x = la[i]
		}
		if i < len(lb) {
			y = lb[i]
		}
		if x != y {
			return fmt.Sprintf("line %d: reference %q observed %q", i+1, x, y)
		}
	}
	return ""
}

func tapeHash(t []int) uint64 {
	b := make([]byte, 0, len(t))
	for _, x := range t {
		b = append(b, byte(x))
	}
	return kit.Hash64(b)
}

// soloSpec is the case's statements run plainly: every statement list of the
// case at top level (inside a function if the case is), one after the other,
// on one goroutine, no faults, no cancellation.
func (c *Case) soloSpec() *RunSpec {
	var lines []string
	lines = append(lines, c.Setup...)
	for _, h := range c.History {
		lines = append(lines, h.Lines...)
	}
	lines = append(lines, c.S...)
	lines = append(lines, c.T...)
	lines = append(lines, c.Sub...)
	lines = append(lines, c.Prog...)
	var kept []string
	for _, l := range lines {
		if !hangsForever([]string{l}) {
			kept = append(kept, l)
		}
	}
	if c.InFunc {
		kept = wrapInFunc(kept)
	}
	s := baseSpec(c)
	s.Strategy = Strategy{Kind: "sequential"}
	s.Programs = []string{joinProg(kept)}
	s.MaxSteps = 4000
	if c.Property == "C31" {
		s.Programs = []string{":"} // every C31 program blocks by design
	}
	return &s
}

// Evaluate runs a case (its test run and any reference run) and applies the
// oracle of its property.
func Evaluate(t *testing.T, c *Case, raceLog func() string) *Verdict {
	v := &Verdict{Idx: c.Idx, OK: true, Kind: c.Kind, Strategy: c.Strategy.Kind, Probes: map[string]int64{}}
	finish := func(res *RunResult, prog string) {
		v.Steps, v.Switches, v.MaxLive, v.SimNS = res.Steps, res.Switches, res.MaxLive, int64(res.SimTime)
		v.Faults = res.FaultsFired
		v.FaultFree = len(res.FaultsFired) == 0
		v.Cancelled = res.Cancelled
		v.Digest = res.Digest
		for k, n := range res.Probes {
			v.Probes[k] += n
		}
		v.Hash = kit.Hash64([]byte(prog), []byte(fmt.Sprint(tapeHash(res.Tape), res.CancelAtStep, res.FaultsFired, c.PipeCap)))
		if c.Idx%53 == 0 {
			v.Sample = fmt.Sprintf("kind=%s strategy=%s pipe_cap=%d cancel_step=%d faults=%v steps=%d switches=%d program=%s", c.Kind, c.Strategy.Kind, c.PipeCap, c.CancelStep, c.Faults, res.Steps, res.Switches, kit.Clip(prog, 400))
		}
	}
	fail := func(class, key, detail string, res *RunResult) {
		v.OK, v.Class, v.Key, v.Detail = false, class, key, kit.Clip(detail, 1500)
		cc := *c
		cc.Strategy = Strategy{Kind: "tape", Tape: res.Tape}
		if res.Cancelled {
			cc.CancelStep = res.CancelAtStep
		}
		cc.Class, cc.Key, cc.Detail = class, key, v.Detail
		v.Case = &cc
	}
	harness := func(res *RunResult) bool {
		if res.ParseSkip != "" {
			v.Skipped = res.ParseSkip
			return true
		}
		if res.HarnessErr != "" {
			v.Skipped = "harness: " + res.HarnessErr
			return true
		}
		return false
	}
	crash := func(res *RunResult) bool {
		if res.Panic != "" {
			// The same statements run plainly one after the other: a panic
			// there too has nothing to do with the construct the property is
			// about (subshell, job, reuse, ...); the claimed properties do
			// not cover plain interpreter crashes, so it is tallied, not
			// reported.
			if solo := Execute(t, c.soloSpec()); solo.Panic != "" {
				v.Skipped = "interpreter panic that also happens when the statements run plainly in sequence (outside the claimed properties): " + kit.Clip(solo.Panic, 160)
				v.OK = true
				return true
			}
			fail("panic", "panic:"+c.Kind, "panic in the interpreter: "+res.Panic, res)
			return true
		}
		return false
	}
	if c.Solo {
		res := Execute(t, c.soloSpec())
		v.Runs++
		if res.Panic != "" {
			v.OK, v.Class, v.Detail = false, "solo-panic", res.Panic
		}
		return v
	}
	switch c.Property {
	case "C27":
		testProg, refProg := c.c27Programs()
		rs := seqSpec(c)
		rs.Programs = []string{refProg}
		ref := Execute(t, &rs)
		v.Runs++
		if harness(ref) {
			return v
		}
		if !ref.Returned || ref.StepBudget {
			v.Skipped = "reference run did not finish: " + ref.Hang
			return v
		}
		ts := baseSpec(c)
		ts.Programs = []string{testProg}
		ts.Faults = c.Faults
		res := Execute(t, &ts)
		v.Runs++
		finish(res, testProg)
		if harness(res) || crash(res) {
			return v
		}
		if !res.Returned {
			// a hang of the test program is not an isolation violation;
			// blocked constructs are C31's subject
			v.Skipped = "test run did not finish: " + res.Hang
			return v
		}
		v.NonTrivial = len(c.S) > 0 && res.Steps > 0
		key := "leak:" + c.Ctx
		if d := firstLineDiff(afterDump(ref.last().Stdout), afterDump(res.last().Stdout)); d != "" {
			fail("parent-state-changed", key, fmt.Sprintf("context %s, in-shell dump differs from the run without S: %s", c.Ctx, d), res)
			return v
		}
		if d := mapDiff(ref.Vars, res.Vars); d != "" {
			fail("parent-state-changed", key, fmt.Sprintf("context %s, Runner.Vars differ: %s", c.Ctx, d), res)
			return v
		}
		// the wrapper function of the in-function variant contains S itself
		delete(ref.Funcs, "main")
		delete(res.Funcs, "main")
		if d := mapDiff(ref.Funcs, res.Funcs); d != "" {
			fail("parent-state-changed", key, fmt.Sprintf("context %s, Runner.Funcs differ: %s", c.Ctx, d), res)
			return v
		}
		if ref.Dir != res.Dir || strings.Join(ref.Params, "\x00") != strings.Join(res.Params, "\x00") {
			fail("parent-state-changed", key, fmt.Sprintf("context %s, Dir/Params differ: %q %q vs %q %q", c.Ctx, ref.Dir, ref.Params, res.Dir, res.Params), res)
		}
	case "C29":
		prog := joinProg(c.Setup, c.Prog)
		ts := baseSpec(c)
		ts.Programs = []string{prog}
		ts.Faults = c.Faults
		ts.CancelStep = c.CancelStep
		res := Execute(t, &ts)
		v.Runs++
		finish(res, prog)
		if harness(res) || crash(res) {
			return v
		}
		if res.ForcedShutdown || res.TreeAfter == "" {
			v.Skipped = "goroutines could not be drained; tree not compared"
			return v
		}
		v.NonTrivial = res.Steps > 3
		if res.TreeBefore != res.TreeAfter {
			fail("tree-modified", "tree-modified:"+c.Kind, "typed-JSON of the syntax tree differs after Run: "+firstLineDiff(res.TreeBefore, res.TreeAfter), res)
			return v
		}
		if res.TreePrintBefore != res.TreePrintAfter {
			fail("tree-modified", "tree-print-modified:"+c.Kind, "printed form of the tree differs after Run: "+firstLineDiff(res.TreePrintBefore, res.TreePrintAfter), res)
			return v
		}
		if res.EnvWrites > 0 {
			fail("env-written", "env-set-called", fmt.Sprintf("Run called Set on the supplied Environ %d times", res.EnvWrites), res)
			return v
		}
		if res.EnvBefore != res.EnvAfter {
			fail("env-written", "env-storage-modified", "values served by the supplied Environ changed: "+firstLineDiff(res.EnvBefore, res.EnvAfter), res)
		}
	case "C30":
		prog := joinProg(c.Prog)
		rs := seqSpec(c)
		rs.Programs = []string{prog}
		ref := Execute(t, &rs)
		v.Runs++
		if harness(ref) {
			return v
		}
		if !ref.Returned || ref.StepBudget {
			v.Skipped = "reference run of P did not finish: " + ref.Hang
			return v
		}
		ts := baseSpec(c)
		var what string
		if c.Kind == "incremental" {
			ts.Programs = []string{prog}
			ts.PerStmt = true
			what = "statement-by-statement Run calls vs whole file"
		} else {
			what = "Reset+Run(P) after history vs new Runner"
			for _, h := range c.History {
				ts.Programs = append(ts.Programs, joinProg(h.Lines))
				ts.ResetFirst = append(ts.ResetFirst, h.Reset)
			}
			ts.Programs = append(ts.Programs, prog)
			ts.ResetFirst = append(ts.ResetFirst, true)
		}
		var res *RunResult
		if c.Kind == "incremental" {
			res = Execute(t, &ts)
		} else {
			res = executeHistory(t, c, &ts)
		}
		v.Runs++
		finish(res, strings.Join(ts.Programs, "\n---\n"))
		if harness(res) || crash(res) {
			return v
		}
		if !res.Returned {
			v.Skipped = "history run did not finish: " + res.Hang
			return v
		}
		v.NonTrivial = true
		key := c.Kind
		a, b := ref.last(), res.last()
		switch {
		case canonOutput(a.Stdout) != canonOutput(b.Stdout):
			// "alias" and "declare -p" of an associative array print in Go
			// map order: compared as sets (canonOutput)
			fail("reuse-differs", key+":stdout", what+": stdout differs: "+firstLineDiff(canonOutput(a.Stdout), canonOutput(b.Stdout)), res)
		case a.Stderr != b.Stderr:
			fail("reuse-differs", key+":stderr", what+": stderr differs: "+firstLineDiff(a.Stderr, b.Stderr), res)
		case a.Err != b.Err:
			fail("reuse-differs", key+":status", fmt.Sprintf("%s: Run error %q vs %q", what, a.Err, b.Err), res)
		case a.Exited != b.Exited:
			fail("reuse-differs", key+":exited", fmt.Sprintf("%s: Exited() %v vs %v", what, a.Exited, b.Exited), res)
		case mapDiff(ref.Vars, res.Vars) != "":
			fail("reuse-differs", key+":vars", what+": Runner.Vars differ: "+mapDiff(ref.Vars, res.Vars), res)
		case mapDiff(ref.Funcs, res.Funcs) != "":
			fail("reuse-differs", key+":funcs", what+": Runner.Funcs differ: "+mapDiff(ref.Funcs, res.Funcs), res)
		case ref.Dir != res.Dir || strings.Join(ref.Params, "\x00") != strings.Join(res.Params, "\x00"):
			fail("reuse-differs", key+":dir-params", fmt.Sprintf("%s: Dir/Params %q %q vs %q %q", what, ref.Dir, ref.Params, res.Dir, res.Params), res)
		}
	case "C31":
		prog := joinProg(c.Setup, c.Prog)
		ts := baseSpec(c)
		ts.Programs = append(append([]string{}, c.Warm...), prog)
		ts.PerStmt = c.PerStmt
		ts.CancelStep = c.CancelStep
		ts.MaxSteps = 6000
		res := Execute(t, &ts)
		v.Runs++
		finish(res, prog)
		if harness(res) || crash(res) {
			return v
		}
		if !res.Cancelled {
			v.Skipped = "program ended before the cancellation step"
			return v
		}
		v.NonTrivial = true
		const stepBound, timeBound = 2000, 3 * time.Second
		switch {
		case !res.Returned && res.Hang != "":
			fail("hang-after-cancel", "hang:"+c.Kind, fmt.Sprintf("cancelled at step %d (main goroutine %s); Run never returned: %s", res.CancelAtStep, res.CancelMainPoint, res.Hang), res)
		case !res.Returned:
			fail("slow-after-cancel", "slow:"+c.Kind, fmt.Sprintf("cancelled at step %d; Run had not returned after %d further scheduling steps", res.CancelAtStep, res.StepsAfterCancel), res)
		case res.StepsAfterCancel > stepBound || res.TimeAfterCancel > timeBound:
			fail("slow-after-cancel", "slow:"+c.Kind, fmt.Sprintf("cancelled at step %d; Run returned only after %d steps and %v of simulated time (bounds %d steps, %v)", res.CancelAtStep, res.StepsAfterCancel, res.TimeAfterCancel, stepBound, timeBound), res)
		case res.last().ErrIsNil:
			fail("nil-error-after-cancel", "no-error:"+c.Kind, fmt.Sprintf("cancelled at step %d (main goroutine %s) while the program cannot finish by itself; Run returned a nil error", res.CancelAtStep, res.CancelMainPoint), res)
		}
	case "C32":
		ts := baseSpec(c)
		ts.Faults = c.Faults
		var prog string
		switch c.Kind {
		case "wait":
			prog = joinProg(c.Prog)
			ts.Programs = []string{prog}
		case "subshell-api":
			prog = joinProg(c.Prog)
			ts.Programs = []string{joinProg(c.Setup), prog}
			ts.Sub = joinProg(c.Sub)
		default:
			prog = c.c32RaceProgram()
			ts.Programs = []string{prog}
		}
		res := Execute(t, &ts)
		v.Runs++
		finish(res, prog+"\x00"+ts.Sub)
		if harness(res) || crash(res) {
			return v
		}
		v.NonTrivial = res.Switches > 0
		if res.Races > 0 {
			text := ""
			if raceLog != nil {
				text = raceLog()
			}
			fail("data-race", "race:"+raceKey(text), fmt.Sprintf("%d data race report(s) during the run:\n%s", res.Races, kit.Clip(text, 1200)), res)
			return v
		}
		if !res.Returned {
			v.Skipped = "run did not finish: " + res.Hang
			return v
		}
		if c.Kind == "wait" {
			got := strings.TrimRight(res.last().Stdout, "\n")
			want := strings.Join(c.Expect, "\n")
			if got != want {
				fail("wait-status-wrong", "wait-status", "wait/echo output differs from the job exit codes: "+firstLineDiff(want, got), res)
			}
		}
	}
	return v
}

// executeHistory runs a C30 history: each history program may be cancelled
// at its own step; the runner is reset before P.
func executeHistory(t *testing.T, c *Case, ts *RunSpec) *RunResult {
	// Cancellation and faults can apply to one history program per run in
	// the RunSpec model; pick the first history program that asks for them.
	ts.CancelStep, ts.CancelProg = -1, -1
	for i, h := range c.History {
		if h.CancelStep >= 0 || hangsForever(h.Lines) {
			ts.CancelProg = i
			ts.CancelStep = h.CancelStep
			if ts.CancelStep < 0 {
				ts.CancelStep = 30
			}
			break
		}
	}
	// later history programs that could block forever are made finite
	for i, h := range c.History {
		if i != ts.CancelProg && hangsForever(h.Lines) {
			var kept []string
			for _, l := range h.Lines {
				if !hangsForever([]string{l}) {
					kept = append(kept, l)
				}
			}
			kept = append(kept, ":")
			ts.Programs[i] = joinProg(kept)
		}
	}
	for i, h := range c.History {
		if len(h.Faults) > 0 {
			ts.Faults, ts.FaultProg = h.Faults, i
			break
		}
	}
	return Execute(t, ts)
}

// raceKey normalises a race report into the pair of innermost functions.
func raceKey(text string) string {
	var fns []string
	lines := strings.Split(text, "\n")
	for i, l := range lines {
		if (strings.Contains(l, " by goroutine ") || strings.Contains(l, " by main goroutine")) && i+1 < len(lines) {
			fn := strings.TrimSpace(lines[i+1])
			fn = strings.TrimSuffix(fn, "()")
			if j := strings.LastIndex(fn, "/"); j >= 0 {
				fn = fn[j+1:]
			}
			fns = append(fns, fn)
			if len(fns) == 2 {
				break
			}
		}
	}
	sort.Strings(fns)
	if len(fns) == 0 {
		return "unparsed"
	}
	return strings.Join(fns, "|")
}
