package worldb

import (
	"context"
	"fmt"
	"os"
	"sort"
	"strings"
	"testing"
	"testing/synctest"
	"time"

	"mvdan.cc/sh/v3/expand"
	"mvdan.cc/sh/v3/interp"
	"mvdan.cc/sh/v3/syntax"
	"verifsim/kit"
)

// Strategy decides which parked goroutine runs next. Choice code 0 means
// "keep running the goroutine that ran last if it is still a candidate";
// k>0 picks the k-th candidate in stable-id order (modulo the number of
// candidates). A recorded tape of codes replays a schedule exactly.
type Strategy struct {
	Kind string `json:"kind"`           // sequential | random | preempt | pct | starve | tape
	P    int    `json:"p,omitempty"`    // preempt: probability in percent
	Seed uint64 `json:"seed,omitempty"` // seed of the strategy's own PRNG
	Tape []int  `json:"tape,omitempty"`
	// starve: goroutine index (in candidate order) to avoid for N steps
	Victim int `json:"victim,omitempty"`
	N      int `json:"n,omitempty"`
}

// Step is one line of the event log of a run.
type Step struct {
	ID    string
	Point string
}

// RunSpec describes one simulated execution completely.
type RunSpec struct {
	Programs    []string          `json:"programs"`              // run in order on one Runner (the last is "the" program)
	ResetFirst  []bool            `json:"reset_first,omitempty"` // call Reset before program i
	PerStmt     bool              `json:"per_stmt,omitempty"`    // run the last program one top-level statement per Run call
	Sub         string            `json:"sub,omitempty"`         // program run on r.Subshell() concurrently with the last program
	Strategy    Strategy          `json:"strategy"`
	CancelStep  int               `json:"cancel_step"` // -1: never; counts controller steps of the last program
	CancelProg  int               `json:"cancel_prog"` // which program the cancellation applies to (index), default last
	PipeCap     int               `json:"pipe_cap"`
	Faults      []Fault           `json:"faults,omitempty"`
	FaultProg   int               `json:"fault_prog"`      // program index the faults apply to (-1: last)
	Stdin       string            `json:"stdin"`           // "nil" | "silent" | "closed" | "data:..."
	Files       map[string]string `json:"files,omitempty"` // path -> content; a trailing "/" makes a directory
	Env         []string          `json:"env,omitempty"`
	Params      []string          `json:"params,omitempty"`
	StdoutFail  int               `json:"stdout_fail"` // -1: never
	MaxSteps    int               `json:"max_steps"`
	EnvArrays   bool              `json:"env_arrays,omitempty"` // supply a recording Environ with indexed/assoc values
	Interactive bool              `json:"interactive,omitempty"`
	Lang        string            `json:"lang,omitempty"` // parser variant: "" (bash), "zsh", "mksh"
	KillTimeout int               `json:"kill_timeout_ms,omitempty"`
}

// ProgResult is what one Run call sequence of one program produced.
type ProgResult struct {
	Err      string
	ErrIsNil bool
	Exited   bool
	Stdout   string
	Stderr   string
	Returned bool
}

// RunResult is everything observed in one simulated run.
type RunResult struct {
	Progs                           []ProgResult
	SubErr                          string
	Vars                            map[string]string // deep textual dump of Runner.Vars after the last program
	Funcs                           map[string]string
	Dir                             string
	Params                          []string
	Tape                            []int
	Log                             []Step
	Steps                           int
	SimTime                         time.Duration
	Cancelled                       bool
	CancelAtStep                    int
	CancelMainPoint                 string // where the main goroutine was parked/blocked when the cancel fired
	StepsAfterCancel                int
	TimeAfterCancel                 time.Duration
	Returned                        bool   // the last program's Run returned
	Hang                            string // non-empty: nobody runnable, no timer, Run not returned
	StepBudget                      bool
	Races                           int
	RaceText                        string
	LeakedGoroutines                int
	ForcedShutdown                  bool
	FaultsFired                     []string
	Probes                          map[string]int64
	Switches                        int // context switches between distinct live goroutines
	MaxLive                         int
	TreeBefore, TreeAfter           string // C29: typed dump of the last program's tree
	TreePrintBefore, TreePrintAfter string
	EnvWrites                       int // C29: Set calls on the supplied Environ
	EnvBefore, EnvAfter             string
	Panic                           string
	HarnessErr                      string
	Digest                          string
	ParseSkip                       string // the program does not parse under the chosen non-default variant
}

func (r *RunResult) last() *ProgResult { return &r.Progs[len(r.Progs)-1] }

// parseProg parses src as bash; generated programs are always valid.
func parseProg(src, name string) (*syntax.File, error) { return parseProgLang(src, name, "") }

// parseProgLang parses with the given variant ("" = bash). Comments are kept:
// they are part of the tree that Run must not modify.
func parseProgLang(src, name, lang string) (*syntax.File, error) {
	v := syntax.LangBash
	switch lang {
	case "zsh":
		v = syntax.LangZsh
	case "mksh":
		v = syntax.LangMirBSDKorn
	}
	return syntax.NewParser(syntax.Variant(v), syntax.KeepComments(true)).Parse(strings.NewReader(src), name)
}

type chooser struct {
	st       Strategy
	rng      *kit.Rand
	pos      int
	prio     [maxG]int // pct priorities by first-seen order
	seen     []string
	changeAt []int
}

func newChooser(st Strategy) *chooser {
	c := &chooser{st: st, rng: kit.NewRand(st.Seed ^ 0x5ced)}
	if st.Kind == "pct" {
		for i := 0; i < max(st.N, 1); i++ {
			c.changeAt = append(c.changeAt, c.rng.Intn(400))
		}
	}
	return c
}

// choose returns a choice code for the step.
func (c *chooser) choose(step int, cands []cand, lastIdx int) int {
	n := len(cands)
	lastPos := -1
	for i, cd := range cands {
		if cd.idx == lastIdx {
			lastPos = i
		}
	}
	switch c.st.Kind {
	case "tape":
		if c.pos < len(c.st.Tape) {
			v := c.st.Tape[c.pos]
			c.pos++
			return v
		}
		return 0
	case "sequential":
		return 0 // run-to-block, lowest id when the last one is gone
	case "random":
		return 1 + c.rng.Intn(n)
	case "preempt":
		if lastPos >= 0 && c.rng.Intn(100) >= c.st.P {
			return 0
		}
		return 1 + c.rng.Intn(n)
	case "starve":
		if step < c.st.N && n > 1 {
			v := c.st.Victim % n
			k := c.rng.Intn(n - 1)
			if k >= v {
				k++
			}
			return 1 + k
		}
		if lastPos >= 0 && c.rng.Intn(100) >= 10 {
			return 0
		}
		return 1 + c.rng.Intn(n)
	case "pct":
		// random priorities per goroutine id, lowered at a few change points
		best, bestP := 0, -1<<30
		for i, cd := range cands {
			p := c.prioOf(cd.id)
			if p > bestP {
				best, bestP = i, p
			}
		}
		for _, ca := range c.changeAt {
			if ca == step {
				c.setPrio(cands[best].id, -step-1)
			}
		}
		return 1 + best
	}
	return 0
}

func (c *chooser) prioOf(id string) int {
	for i, s := range c.seen {
		if s == id {
			return c.prio[i]
		}
	}
	c.seen = append(c.seen, id)
	i := len(c.seen) - 1
	if i < maxG {
		c.prio[i] = c.rng.Intn(1000)
		return c.prio[i]
	}
	return 0
}

func (c *chooser) setPrio(id string, p int) {
	for i, s := range c.seen {
		if s == id && i < maxG {
			c.prio[i] = p
		}
	}
}

// resolve turns a choice code into a candidate position.
func resolve(code int, cands []cand, lastIdx int) int {
	if code <= 0 {
		for i, cd := range cands {
			if cd.idx == lastIdx {
				return i
			}
		}
		return 0
	}
	return (code - 1) % len(cands)
}

// mainState is written by the goroutine that calls Runner.Run and read by
// the controller, always through norace accessors under the invisible lock.
type mainState struct {
	progIdx   int
	progStart bool // set when a program (Run call sequence) starts; cleared by the controller
	allDone   bool
	subDone   bool
}

//go:norace
func (w *World) mainProgStart(i int) {
	raceDisable()
	w.imu.Lock()
	w.ms.progIdx, w.ms.progStart = i, true
	w.imu.Unlock()
	raceEnable()
	w.S.setEpoch(i)
}

//go:norace
func (w *World) mainClearProgStart() {
	raceDisable()
	w.imu.Lock()
	w.ms.progStart = false
	w.imu.Unlock()
	raceEnable()
}

//go:norace
func (w *World) mainAllDone() {
	raceDisable()
	w.imu.Lock()
	w.ms.allDone = true
	w.imu.Unlock()
	raceEnable()
}

//go:norace
func (w *World) mainSubDone() {
	raceDisable()
	w.imu.Lock()
	w.ms.subDone = true
	w.imu.Unlock()
	raceEnable()
}

//go:norace
func (w *World) getMain() mainState {
	raceDisable()
	w.imu.Lock()
	m := w.ms
	w.imu.Unlock()
	raceEnable()
	return m
}

//go:norace
func (w *World) setPanic(s string) {
	raceDisable()
	w.imu.Lock()
	if w.panicText == "" {
		w.panicText = s
	}
	w.imu.Unlock()
	raceEnable()
}

//go:norace
func (w *World) getPanic() string {
	raceDisable()
	w.imu.Lock()
	s := w.panicText
	w.imu.Unlock()
	raceEnable()
	return s
}

//go:norace
func (w *World) setFaults(f []Fault) {
	raceDisable()
	w.imu.Lock()
	w.faults = f
	w.imu.Unlock()
	raceEnable()
}

// Execute performs one simulated run inside its own synctest bubble.
func Execute(t *testing.T, spec *RunSpec) *RunResult {
	res := &RunResult{Probes: map[string]int64{}}
	t.Run("run", func(t *testing.T) {
		defer func() {
			if r := recover(); r != nil {
				// e.g. the end-of-bubble deadlock panic; never a violation
				if res.HarnessErr == "" {
					res.HarnessErr = fmt.Sprint("bubble panic: ", r)
				}
			}
		}()
		synctest.Test(t, func(t *testing.T) {
			executeInBubble(spec, res)
		})
	})
	if debugHook != nil {
		debugHook("run", spec, res)
	}
	return res
}

// debugHook, when set by a development test, sees every finished run.
var debugHook func(what string, spec *RunSpec, res *RunResult)

func executeInBubble(spec *RunSpec, res *RunResult) {
	start := time.Now()
	w := &World{S: newSched(), pipeCap: spec.PipeCap, faults: nil}
	if w.pipeCap <= 0 {
		w.pipeCap = 4096
	}
	w.out = &Sink{w: w, failAt: spec.StdoutFail, name: "stdout"}
	w.errOut = &Sink{w: w, failAt: -1, name: "stderr"}
	for p, c := range spec.Files {
		if strings.HasSuffix(p, "/") {
			w.createFile(strings.TrimSuffix(p, "/"), true, "")
		} else {
			w.createFile(p, false, c)
		}
	}
	w.createFile("/tmp", true, "")
	w.createFile("/home", true, "")
	interp.VerifSim = w.Hooks()
	simWorld = w
	defer func() { interp.VerifSim = nil; simWorld = nil }()

	files := make([]*syntax.File, len(spec.Programs))
	for i, src := range spec.Programs {
		f, err := parseProgLang(src, "", spec.Lang)
		if err != nil {
			if spec.Lang != "" {
				res.ParseSkip = fmt.Sprintf("does not parse as %s: %v", spec.Lang, err)
				return
			}
			res.HarnessErr = fmt.Sprintf("generated program %d does not parse: %v\n%s", i, err, src)
			return
		}
		files[i] = f
	}
	var subFile *syntax.File
	if spec.Sub != "" {
		f, err := parseProgLang(spec.Sub, "", spec.Lang)
		if err != nil {
			res.HarnessErr = fmt.Sprintf("generated sub program does not parse: %v", err)
			return
		}
		subFile = f
	}
	faultProg := spec.FaultProg
	if faultProg < 0 || faultProg >= len(files) {
		faultProg = len(files) - 1
	}
	cancelProg := spec.CancelProg
	if cancelProg < 0 || cancelProg >= len(files) {
		cancelProg = len(files) - 1
	}

	var stdin interp.VerifFile
	var stdinW *pipeEnd
	switch {
	case spec.Stdin == "silent":
		stdin, stdinW = w.NewPipe()
		_ = stdinW // nobody ever writes: reads block
	case spec.Stdin == "closed":
		r, wr := w.NewPipe()
		wr.closed, wr.p.wClosed = true, true
		stdin = r
	case strings.HasPrefix(spec.Stdin, "datasilent:"):
		// some input, then silence: the writer stays open
		r, wr := w.NewPipe()
		wr.p.buf = append(wr.p.buf, spec.Stdin[len("datasilent:"):]...)
		stdin, stdinW = r, wr
	case strings.HasPrefix(spec.Stdin, "latedata:"):
		// silent while the history runs; the input arrives (and the writer
		// closes) at the moment the last program starts
		stdin, stdinW = w.NewPipe()
	case strings.HasPrefix(spec.Stdin, "data:"):
		r, wr := w.NewPipe()
		wr.p.buf = append(wr.p.buf, spec.Stdin[len("data:"):]...)
		wr.closed, wr.p.wClosed = true, true
		stdin = r
	}

	envPairs := append([]string{"HOME=/home", "TMPDIR=/tmp", "PATH=/bin", "LANG=C"}, spec.Env...)
	var env expand.Environ = expand.ListEnviron(envPairs...)
	var recEnv *recordingEnviron
	if spec.EnvArrays {
		recEnv = newRecordingEnviron(envPairs)
		env = recEnv
		res.EnvBefore = recEnv.dump()
	}
	opts := []interp.RunnerOption{
		interp.Env(env),
		interp.Dir("/home"),
		interp.ExecHandlers(func(next interp.ExecHandlerFunc) interp.ExecHandlerFunc { return w.ExecHandler }),
		interp.OpenHandler(w.OpenHandler),
		interp.StatHandler(w.StatHandler),
		interp.ReadDirHandler2(w.ReadDirHandler),
		interp.AccessHandler(w.AccessHandler),
		interp.Params(append([]string{"--"}, spec.Params...)...),
		interp.Interactive(spec.Interactive),
	}
	if stdin != nil {
		opts = append(opts, interp.StdIO(stdin, w.out, w.errOut))
	} else {
		opts = append(opts, interp.StdIO(nil, w.out, w.errOut))
	}
	runner, err := interp.New(opts...)
	if err != nil {
		res.HarnessErr = "interp.New: " + err.Error()
		return
	}

	ctxs := make([]context.Context, len(files))
	cancels := make([]context.CancelFunc, len(files))
	for i := range files {
		ctxs[i], cancels[i] = context.WithCancel(context.Background())
	}
	res.Progs = make([]ProgResult, len(files))

	if len(files) > 0 {
		last := files[len(files)-1]
		res.TreeBefore, res.TreePrintBefore = dumpTree(last), printTree(last)
	}

	// ---- the main simulated goroutine
	mainDoneCh, subDoneCh := make(chan struct{}), make(chan struct{})
	var subErr string
	var fin struct {
		vars, funcs map[string]string
		dir         string
		params      []string
	}
	progs := make([]ProgResult, len(files))
	mainTok := w.S.SpawnRoot("0")
	go func() {
		w.S.Start(mainTok)
		defer w.S.End()
		defer func() {
			if r := recover(); r != nil {
				w.setPanic(fmt.Sprint(r))
			}
			w.mainAllDone()
			// A visible edge INTO the controller only, so that it may read
			// what this goroutine produced; the controller never releases
			// anything visible towards simulated goroutines.
			close(mainDoneCh)
		}()
		for i, f := range files {
			w.mainProgStart(i)
			w.S.Yield("prog-start")
			if i < len(spec.ResetFirst) && spec.ResetFirst[i] {
				runner.Reset()
			}
			if i == len(files)-1 && strings.HasPrefix(spec.Stdin, "latedata:") {
				p := stdinW.p
				p.mu.Lock()
				p.buf = append(p.buf, spec.Stdin[len("latedata:"):]...)
				stdinW.closed, p.wClosed = true, true
				p.cond.Broadcast()
				p.mu.Unlock()
			}
			outStart, errStart := len(w.out.String()), len(w.errOut.String())
			pr := &progs[i]
			var err error
			if spec.PerStmt && i == len(files)-1 {
				// Every call gets a context of its own, cancelled once the call
				// has returned (the usual "defer cancel()") - unless the
				// program starts jobs or process substitutions, which inherit
				// the context of the call that started them and would be
				// stopped with it (that is the caller's doing, not a
				// difference between the two ways of running a file).
				ownCtx := !strings.Contains(spec.Programs[i], "&") && !strings.Contains(spec.Programs[i], "<(") && !strings.Contains(spec.Programs[i], ">(")
				for _, st := range f.Stmts {
					sctx, scancel := ctxs[i], context.CancelFunc(func() {})
					if ownCtx {
						sctx, scancel = context.WithCancel(ctxs[i])
					}
					err = runner.Run(sctx, st)
					scancel()
					if runner.Exited() || ctxs[i].Err() != nil {
						break
					}
				}
			} else if i == len(files)-1 && subFile != nil {
				sub := runner.Subshell()
				subTok := w.S.Spawn()
				go func() {
					w.S.Start(subTok)
					defer w.S.End()
					defer func() {
						if r := recover(); r != nil {
							w.setPanic(fmt.Sprint(r))
						}
						w.mainSubDone()
						close(subDoneCh)
					}()
					if err := sub.Run(ctxs[i], subFile); err != nil {
						subErr = err.Error()
					}
				}()
				err = runner.Run(ctxs[i], f)
			} else {
				err = runner.Run(ctxs[i], f)
			}
			pr.Returned = true
			pr.ErrIsNil = err == nil
			if err != nil {
				pr.Err = err.Error()
			}
			pr.Exited = runner.Exited()
			pr.Stdout = w.out.String()[outStart:]
			pr.Stderr = w.errOut.String()[errStart:]
		}
		// final state, collected by the goroutine that owns the runner
		fin.vars = dumpVars(runner.Vars)
		fin.funcs = dumpFuncs(runner.Funcs)
		fin.dir = runner.Dir
		fin.params = append([]string{}, runner.Params...)
	}()

	// ---- the controller
	ch := newChooser(spec.Strategy)
	maxSteps := spec.MaxSteps
	if maxSteps <= 0 {
		maxSteps = 20000
	}
	var cands []cand
	lastIdx := -1
	lastID := ""
	progSteps := 0 // steps since the current program started
	curProg := -1
	raceBase := raceErrors()
	var cancelTime time.Time
	cancelFired := false
	idleLimit := 30 * time.Minute
	postDone := 0
	for {
		synctest.Wait()
		select {
		case <-w.S.kick:
		default:
		}
		ms := w.getMain()
		if ms.progStart {
			w.mainClearProgStart()
			curProg = ms.progIdx
			progSteps = 0
			w.setFaults(nil)
			if curProg == faultProg {
				w.setFaults(spec.Faults)
			}
		}
		cands = w.S.candidates(cands)
		if n := w.S.live(); n > res.MaxLive {
			res.MaxLive = n
		}
		if ms.allDone && (subFile == nil || ms.subDone) {
			// Run returned; keep scheduling what is left (jobs that were not
			// waited for) until nothing is runnable, within a budget.
			if len(cands) == 0 || postDone > 2000 {
				break
			}
			postDone++
		}
		// cancellation: at the chosen step of the chosen program, or at the
		// first idle instant before it
		if spec.CancelStep >= 0 && !cancelFired && curProg == cancelProg && !ms.allDone &&
			(progSteps >= spec.CancelStep || len(cands) == 0) {
			cancelFired = true
			res.Cancelled = true
			res.CancelAtStep = progSteps
			res.CancelMainPoint = w.S.pointOf("0")
			if len(cands) == 0 {
				res.CancelMainPoint = "blocked:" + res.CancelMainPoint
			}
			cancelTime = time.Now()
			cancels[cancelProg]()
			continue // let the AfterFunc callbacks and wake-ups settle
		}
		if len(cands) == 0 {
			// Nobody is runnable: wait for a timer to wake someone up.
			select {
			case <-w.S.kick:
				continue
			case <-time.After(idleLimit):
				res.Hang = "no goroutine runnable and no timer pending for " + idleLimit.String() + " of simulated time; main goroutine at " + w.S.pointOf("0")
			}
			break
		}
		if res.Steps >= maxSteps {
			res.StepBudget = true
			break
		}
		code := ch.choose(progSteps, cands, lastIdx)
		pos := resolve(code, cands, lastIdx)
		pick := cands[pos]
		// normalise the recorded code so that replay and minimisation see
		// exactly what happened
		rec := pos + 1
		if pick.idx == lastIdx {
			rec = 0
		}
		res.Tape = append(res.Tape, rec)
		res.Log = append(res.Log, Step{ID: pick.id, Point: pick.point})
		if lastID != "" && pick.id != lastID && len(cands) > 1 {
			res.Switches++
		}
		if pick.id[0] == '~' {
			w.probe(pAnonGoroutine)
		}
		lastIdx, lastID = pick.idx, pick.id
		w.S.release(pick.idx)
		res.Steps++
		progSteps++
		if cancelFired {
			res.StepsAfterCancel++
		}
	}
	synctest.Wait()
	ms := w.getMain()
	res.Returned = ms.allDone
	if ms.allDone {
		<-mainDoneCh // acquire what the main goroutine wrote
		copy(res.Progs, progs)
		res.Vars, res.Funcs, res.Dir, res.Params = fin.vars, fin.funcs, fin.dir, fin.params
	} else {
		// Run never returned: only race-invisible observations are used
		for i := range res.Progs {
			res.Progs[i].Stdout, res.Progs[i].Stderr = "", ""
		}
		res.Progs[len(res.Progs)-1].Stdout = w.out.String()
		res.Progs[len(res.Progs)-1].Stderr = w.errOut.String()
	}
	if subFile != nil && ms.subDone {
		<-subDoneCh
		res.SubErr = subErr
	}
	res.SimTime = time.Since(start)
	if cancelFired {
		res.TimeAfterCancel = time.Since(cancelTime)
	}
	res.Races = raceErrors() - raceBase
	res.Panic = w.getPanic()
	for i := 0; i < nProbes; i++ {
		if w.probes[i] > 0 {
			res.Probes[probeNames[i]] = w.probes[i]
		}
	}
	for i, f := range spec.Faults {
		if w.fired[i] {
			res.FaultsFired = append(res.FaultsFired, f.Kind)
		}
	}
	res.LeakedGoroutines = w.S.live()
	if recEnv != nil {
		res.EnvAfter = recEnv.dump()
		res.EnvWrites = recEnv.writes()
	}

	// ---- drain: cancel everything, make simulated I/O fail fast, and keep
	// scheduling (lowest id first) until every goroutine has finished.
	for _, c := range cancels {
		c()
	}
	w.shutdown()
	for i := 0; i < 5000; i++ {
		synctest.Wait()
		cands = w.S.candidates(cands)
		if len(cands) == 0 {
			if w.S.live() == 0 {
				break
			}
			// blocked on a timer (stubborn command): let the clock run
			select {
			case <-w.S.kick:
				continue
			case <-time.After(time.Hour):
			}
			if w.S.live() == 0 {
				break
			}
			continue
		}
		w.S.release(cands[0].idx)
	}
	synctest.Wait()
	if w.S.live() > 0 {
		res.ForcedShutdown = true
		w.S.releaseAll()
		synctest.Wait()
	}
	if len(files) > 0 && !res.ForcedShutdown {
		// every goroutine has finished, so nothing can still touch the tree
		last := files[len(files)-1]
		res.TreeAfter, res.TreePrintAfter = dumpTree(last), printTree(last)
	}
	res.Digest = res.digest()
}

func (r *RunResult) digest() string {
	var parts [][]byte
	for _, s := range r.Log {
		parts = append(parts, []byte(s.ID), []byte(s.Point))
	}
	for _, p := range r.Progs {
		parts = append(parts, []byte(canonOutput(p.Stdout)), []byte(canonOutput(p.Stderr)), []byte(fifoNameRE.ReplaceAllString(p.Err, "sh-interp-FIFO")))
	}
	keys := make([]string, 0, len(r.Vars))
	for k := range r.Vars {
		keys = append(keys, k)
	}
	sort.Strings(keys)
	for _, k := range keys {
		parts = append(parts, []byte(k), []byte(fifoNameRE.ReplaceAllString(r.Vars[k], "sh-interp-FIFO")))
	}
	parts = append(parts, []byte(fmt.Sprint(r.Steps, r.SimTime, r.Hang, r.Cancelled, r.CancelAtStep, r.StepsAfterCancel)))
	return kit.Digest(parts...)
}

// simWorld is the world of the run in progress (one run at a time per
// process); simulated commands use it to announce goroutines they start.
var simWorld *World

var _ = os.Getenv
