//go:build !race

package worldb

const raceBuild = false

func raceDisable()    {}
func raceEnable()     {}
func raceErrors() int { return 0 }
