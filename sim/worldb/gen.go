package worldb

import (
	"fmt"
	"strings"

	"verifsim/kit"
)

// Generated programs are lists of lines; every line is a complete top-level
// statement, so that the minimiser can drop lines.

var simDirs = map[string]string{"/home/d1/": "", "/home/d2/": "", "/home/d1/sub/": "", "/home/f1.txt": "file one\n", "/home/f2.txt": "l1\nl2\nl3\n", "/home/d1/g.sh": "gv=sourced\n", "/home/d1/loop.sh": "while :; do :; done\n"}

// stateNames are the names a generated parent state may define.
var (
	scalarNames = []string{"s1", "s2", "e1", "r1"}
	arrayNames  = []string{"a", "sp"}
	assocNames  = []string{"m"}
	funcNames   = []string{"f1", "f2", "fnew"}
	aliasNames  = []string{"al", "an"}
	localNames  = []string{"l1", "la"}
)

// genSetup produces the parent state.
func genSetup(r *kit.Rand, inFunc bool) []string {
	var out []string
	add := func(s string) { out = append(out, s) }
	add(kit.Pick(r, []string{"s1=foo", "s1='a b'", "s1="}))
	if r.Chance(2, 3) {
		add("s2=bar")
	}
	if r.Chance(2, 3) {
		add(kit.Pick(r, []string{"export e1=ev", "e1=ev; export e1", "declare -x e1=ev"}))
	}
	if r.Chance(1, 2) {
		add(kit.Pick(r, []string{"readonly r1=rv", "declare -r r1=rv"}))
	}
	add(kit.Pick(r, []string{"a=(1 2 3)", "a=(one)", "a=(x 'y z' w v)", "declare -a a=(1 2)", "a=(x '' z)", "a=(p q r s t); unset 'a[4]' 'a[3]'", "a=(p q r s t); unset 'a[1]'", "a=([0]=x [5]=y [9]=z)", "a=(h1 h2 h3); unset 'a[0]'"}))
	if r.Chance(2, 3) {
		add(kit.Pick(r, []string{"sp=([2]=x [5]=y)", "sp=([1]=q)", "sp=(a b); sp[7]=far"}))
	}
	if r.Chance(2, 3) {
		add(kit.Pick(r, []string{"declare -A m=([k]=v [k2]=v2)", "declare -A m; m[k]=v"}))
	}
	if r.Chance(2, 3) {
		add("f1() { echo f1-body; }")
	}
	if r.Chance(1, 3) {
		add("f2() { s2=set-by-f2; }")
	}
	if r.Chance(1, 2) {
		// the alias table exists whether or not aliases are expanded
		if r.Chance(2, 3) {
			add("shopt -s expand_aliases")
		}
		add("alias al='echo al-body'")
		if r.Chance(1, 3) {
			add("alias an='echo an-body' ao=x")
		}
		if r.Chance(1, 2) {
			// alias bodies of three and five words: slices with spare capacity
			add("alias a3='echo -n x' a5='echo a b c d'")
		}
	}
	if r.Chance(1, 3) {
		add(kit.Pick(r, []string{"set -o noglob", "shopt -s nullglob", "shopt -s dotglob", "set -o pipefail", "shopt -s extglob"}))
	}
	if r.Chance(1, 2) {
		add(kit.Pick(r, []string{"cd /home/d1", "cd /home/d2", "cd /home/d1/sub", "pushd /home/d1 >/dev/null", "pushd /home/d1 >/dev/null; pushd /home/d2 >/dev/null", "cd /home/d1; pushd sub >/dev/null; pushd / >/dev/null"}))
	}
	if r.Chance(1, 2) {
		add(kit.Pick(r, []string{"set -- p1 p2 p3", "set -- 'p 1'", "set --"}))
	}
	if inFunc {
		add(kit.Pick(r, []string{"local l1=lv", "local l1"}))
		add(kit.Pick(r, []string{"local -a la=(l1 l2)", "local la=(x)"}))
	}
	return out
}

// genMutations produces statements that change shell state; used both for
// the child side (S) and the parent side (T) of a concurrent construct.
func genMutations(r *kit.Rand, n int, inFunc bool, quiet bool) []string {
	return genMutationsT(r, n, inFunc, quiet, "")
}

// genMutationsT is genMutations with most composed statements focused on a
// theme (see sysGen.theme).
func genMutationsT(r *kit.Rand, n int, inFunc bool, quiet bool, theme string) []string {
	pool := []string{
		"s1=changed", "s1+=x", "s2=", "unset s1", "s1=(now an array)",
		"a+=([1]=X)", "a+=([0]=Z w)", "a+=([-1]=neg)", "sp+=([2]=chg)", "sp+=([5]=chg [9]=far)", "m+=([k]=new)", "m+=([q]=1)", "read -a sp <<< 's1 s2'", "unset 'm[k2]'", "declare -A m", "export a", "readonly sp", "declare -x m",
		"pushd >/dev/null 2>&1", "popd -n >/dev/null 2>&1", "pushd -n /home/d2 >/dev/null 2>&1", "pushd +1 >/dev/null 2>&1", "popd +0 >/dev/null 2>&1", "cd - >/dev/null 2>&1", "dirs -c 2>/dev/null",
		": ${a[1]:=dflt}", ": ${a[0]:=x}", ": ${sp[3]=hole}", ": ${sp[-1]:=neg}", ": ${a[7]=far}", ": ${m[k]:=dm}", ": ${m[nk]=nv}", ": ${s1:=ds}", ": ${s3=unset-default}", "echo ${la[1]:=ld} >/dev/null",
		"echo -e 'x\\ty' >/dev/null", "echo -e \"$s1\\n\" >/dev/null", "printf '%b %s %d\\n' 'a\\tb' \"$s1\" 3 >/dev/null", "printf '%q\\n' \"$s2\" >/dev/null", "echo -n $s1 >/dev/null", "type f1 al echo >/dev/null 2>&1", "command -v f1 >/dev/null", "test -d /home/d1 && [ -f /home/f1.txt ]", "[[ $s1 == f* && -n $s2 ]]", "echo /home/d*/ *.txt >/dev/null", "echo {1..3} ~ $((1+2)) >/dev/null", "pwd >/dev/null", "dirs >/dev/null", "hash 2>/dev/null", "times >/dev/null", "help echo >/dev/null 2>&1", "true; false; :", "echo ${s1@Q} ${a[@]@Q} ${!m[@]} >/dev/null", "x=$(echo -e 'c\\ts')", "cat <<< \"$s1\" >/dev/null", "cat <<EOF >/dev/null\n$s1 ${a[0]}\nEOF", "trap 'echo -e t' ERR", "declare -p s1 a m >/dev/null 2>&1", "alias >/dev/null", "a3 arg1 >/dev/null 2>&1", "a5 z >/dev/null 2>&1", "al more args >/dev/null 2>&1", "a3 $s1 >/dev/null 2>&1; a3 other >/dev/null 2>&1", "shopt >/dev/null", "set +o >/dev/null", "wait",
		"((s1=5))", "let 's2=7'", "printf -v 'a[1]' %s pv 2>/dev/null", "read 'a[2]' <<< rd", "for a in loopvar; do :; done", "for s1 in l1 l2; do :; done", "select_var=1", "declare -n nref=s1; nref=via-nameref", "declare -n aref=a; aref[0]=via-nameref", "unset -v s2", "export -n e1", "declare +r r1 2>/dev/null", "local_in_f() { local s1=inner; s2=outer-from-func; a[0]=from-func; }; local_in_f",
		"a[0]=z", "a+=(n)", "a+=x", "a[5]=q", "a[-1]=neg", "unset 'a[1]'", "unset a", "a=(re set)", "a[1]+=app",
		"sp[3]=new", "sp+=(w)", "unset 'sp[2]'", "sp+=x", "sp[2]=chg", "unset 'sp[5]'", "unset 'sp[7]'", "unset 'sp[1]'", "unset 'sp[-1]'", "unset 'sp[-1]' 'sp[-1]'", "unset 'a[-1]'", "unset 'a[4]'", "unset 'a[9]'", "unset 'a[0]'", "unset 'a[2]'", "unset 'a[-1]'; a+=(after)", "unalias an 2>/dev/null", "unalias -a", "alias ao=changed", "alias new1=n",
		"m=(k1 v1 k2 v2)", "m=(k1 v1); m=(k1 v1)", "m[k]=changed", "m[new]=1", "m+=([z]=1)", "unset 'm[k]'", "m[k]+=app",
		"declare -g gnew=1", "export s1", "export enew=1", "readonly s2", "e1=changed", "unset e1", "r1=try-to-change-readonly", "declare +x e1",
		"f1() { echo changed; }", "unset -f f1", "fnew() { :; }", "f2",
		"alias al='echo changed'", "unalias al", "alias an=x", "shopt -s expand_aliases",
		"set +o noglob", "set -o noglob", "shopt -s dotglob", "shopt -u nullglob", "set -o pipefail", "set -o nounset", "set -o allexport", "shopt -s globstar",
		"cd /home/d2", "cd /", "cd /home/d1/sub", "pushd /home/d2 >/dev/null", "popd >/dev/null 2>&1",
		"set -- q1", "shift", "set -- x y z w",
		"read s1 <<< from-read", "read -a a <<< 'r1 r2'", "mapfile -t a <<< mapped", "getopts ab opt -a", "OPTIND=5", "IFS=:",
		"source /home/d1/g.sh", "eval 's2=evaled'", "printf -v s2 %s pv", "let 'n = 1 + 2'", ": ${s3:=defaulted}", "for i in 1 2; do s1+=$i; done",
		"x=$(s1=in-cmdsubst; echo $s1)", "(a[0]=in-nested-subshell)", "declare -a a", "declare s2=declared", "typeset s1=typeset-val",
	}
	if inFunc {
		pool = append(pool, "l1=changed", "la+=(x)", "la[0]=y", "unset l1", "local l2=new", "la+=z", "unset 'la[0]'")
	}
	var out []string
	sg := &sysGen{r: r.Fork("sys"), inFunc: inFunc, theme: theme}
	for i := 0; i < n; i++ {
		if r.Chance(1, 2) || (theme != "" && r.Chance(1, 2)) {
			// composed from parts rather than picked from the list
			s := sg.Stmt()
			if quiet {
				s = "{\n" + s + "\n} 2>/dev/null"
			}
			out = append(out, s)
			continue
		}
		s := kit.Pick(r, pool)
		if quiet {
			s += " 2>/dev/null"
			if strings.Contains(s, "()") || strings.HasPrefix(s, "for ") || strings.Contains(s, "\n") || strings.HasSuffix(s, "/dev/null") || strings.HasSuffix(s, "2>&1") {
				s = strings.TrimSuffix(s, " 2>/dev/null")
			}
		}
		out = append(out, s)
	}
	return out
}

// dumpLines prints every piece of shell state the C27 statement names.
func dumpLines(inFunc bool) []string {
	names := "s1 s2 s3 e1 r1 enew gnew gv n opt a sp m OPTIND IFS PWD OLDPWD nref aref select_var x i u1 x2 REPLY OPTARG HOME rest"
	if inFunc {
		names += " l1 l2 la"
	}
	return []string{
		"echo ===DUMP===",
		"declare -p " + names + " 2>&1",
		"declare -f f1 2>&1; declare -f f2 2>&1; declare -f fnew 2>&1; declare -f f3 fw fw2 fl 2>&1",
		"alias 2>&1",
		"shopt 2>&1",
		"set +o 2>&1",
		"pwd; dirs",
		"echo \"params:$#:$*\"",
	}
}

var isolatingContexts = []string{"subshell", "cmdsubst", "procsubst-in", "procsubst-out", "pipe-first", "pipe-last", "background", "nested-subshell-bg", "nested-cmdsubst-subshell", "pipe-middle", "coproc-like-bg-subshell"}

// wrapContext puts the statements S into an isolating context. The result
// is a list of lines.
func wrapContext(ctx string, S []string) []string {
	body := strings.Join(S, "\n")
	switch ctx {
	case "subshell":
		return []string{"(\n" + body + "\ntrue\n) >/dev/null 2>&1"}
	case "cmdsubst":
		return []string{": \"$(\n" + body + "\ntrue\n)\" 2>/dev/null"}
	case "procsubst-in":
		return []string{"cat <(\n" + body + "\ntrue\n) >/dev/null 2>&1"}
	case "procsubst-out":
		return []string{"emit 2 > >(\n" + body + "\ndrain >/dev/null\n) 2>/dev/null"}
	case "pipe-first":
		return []string{"{\n" + body + "\ntrue\n} 2>/dev/null | cat >/dev/null"}
	case "pipe-middle":
		return []string{"emit 1 | {\n" + body + "\ntrue\n} 2>/dev/null | cat >/dev/null"}
	case "pipe-last":
		return []string{"emit 1 | {\n" + body + "\ntrue\n} >/dev/null 2>&1"}
	case "background":
		return []string{"{\n" + body + "\ntrue\n} >/dev/null 2>&1 &"}
	case "nested-subshell-bg":
		return []string{"( (\n" + body + "\ntrue\n) & wait ) >/dev/null 2>&1"}
	case "nested-cmdsubst-subshell":
		return []string{": \"$( (\n" + body + "\n) ; true )\" 2>/dev/null"}
	case "zsh-disown-bang":
		return []string{"{\n" + body + "\ntrue\n} >/dev/null 2>&1 &!"}
	case "zsh-disown-pipe":
		return []string{"{\n" + body + "\ntrue\n} >/dev/null 2>&1 &|"}
	case "coproc-like-bg-subshell":
		return []string{"(\n" + body + "\ntrue\n) >/dev/null 2>&1 &"}
	}
	panic("unknown context " + ctx)
}

// genStrategy draws a scheduling strategy.
func genStrategy(r *kit.Rand) Strategy {
	seed := r.Uint64()
	switch r.Intn(8) {
	case 0:
		return Strategy{Kind: "sequential"}
	case 1, 2:
		return Strategy{Kind: "random", Seed: seed}
	case 3:
		return Strategy{Kind: "preempt", P: 2, Seed: seed}
	case 4:
		return Strategy{Kind: "preempt", P: 10, Seed: seed}
	case 5:
		return Strategy{Kind: "preempt", P: 30, Seed: seed}
	case 6:
		return Strategy{Kind: "pct", N: r.Range(1, 3), Seed: seed}
	default:
		return Strategy{Kind: "starve", Victim: r.Intn(3), N: r.Range(5, 60), Seed: seed}
	}
}

func genPipeCap(r *kit.Rand) int { return kit.Pick(r, []int{1, 7, 64, 4096}) }

// genFaults draws at most two I/O faults; 40% of runs are fault-free.
func genFaults(r *kit.Rand, kinds []string) []Fault {
	if r.Chance(2, 5) || len(kinds) == 0 {
		return nil
	}
	n := 1
	if r.Chance(1, 3) {
		n = 2
	}
	var out []Fault
	for i := 0; i < n; i++ {
		// mostly the first or second operation of that kind, so that the
		// fault actually fires; sometimes a later one
		n := r.Intn(2)
		if r.Chance(1, 4) {
			n = r.Intn(5)
		}
		out = append(out, Fault{Kind: kit.Pick(r, kinds), N: n, Arg: r.Intn(40)})
	}
	return out
}

func indent(lines []string) string { return strings.Join(lines, "\n") }

func joinProg(parts ...[]string) string {
	var all []string
	for _, p := range parts {
		all = append(all, p...)
	}
	return strings.Join(all, "\n") + "\n"
}

func wrapInFunc(lines []string) []string {
	return []string{"main() {\n" + strings.Join(lines, "\n") + "\n}", "main \"$@\""}
}

var _ = fmt.Sprint
