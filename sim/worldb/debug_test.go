package worldb

import (
	"fmt"
	"os"
	"strconv"
	"strings"
	"testing"

	"verifsim/kit"
)

// TestDebugCase prints everything about one generated case
// (VERIF_DEBUG_CASE=C27:37); a development aid.
func TestDebugCase(t *testing.T) {
	spec := os.Getenv("VERIF_DEBUG_CASE")
	if spec == "" {
		t.Skip("set VERIF_DEBUG_CASE=<prop>:<idx>")
	}
	prop, idxs, _ := strings.Cut(spec, ":")
	idx, _ := strconv.Atoi(idxs)
	c := GenCase(prop, kit.RootSeed(20260921), idx, tierOr("quick"))
	if os.Getenv("VERIF_DEBUG_SEQ") != "" {
		c.Strategy = Strategy{Kind: "sequential"}
	}
	debugHook = func(what string, spec *RunSpec, res *RunResult) {
		fmt.Printf("=== %s\nprogram:\n%s\n", what, strings.Join(spec.Programs, "\n-----\n"))
		for i, s := range res.Log {
			fmt.Printf("step %d %s %s\n", i, s.ID, s.Point)
		}
		for i, p := range res.Progs {
			fmt.Printf("prog %d: err=%q exited=%v returned=%v\nstdout:\n%s\nstderr:\n%s\n", i, p.Err, p.Exited, p.Returned, p.Stdout, p.Stderr)
		}
		fmt.Printf("steps=%d sim=%v hang=%q cancelled=%v@%d(%s) after=%d/%v races=%d leaked=%d forced=%v faults=%v probes=%v digest=%s harness=%q panic=%q\n",
			res.Steps, res.SimTime, res.Hang, res.Cancelled, res.CancelAtStep, res.CancelMainPoint, res.StepsAfterCancel, res.TimeAfterCancel, res.Races, res.LeakedGoroutines, res.ForcedShutdown, res.FaultsFired, res.Probes, res.Digest, res.HarnessErr, res.Panic)
	}
	v := Evaluate(t, c, nil)
	fmt.Printf("verdict: ok=%v skipped=%q class=%s key=%s\ndetail=%s\n", v.OK, v.Skipped, v.Class, v.Key, v.Detail)
}

func tierOr(d string) string {
	if t := os.Getenv("VERIF_DEBUG_TIER"); t != "" {
		return t
	}
	return d
}
