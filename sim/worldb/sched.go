// Package worldb is the shell concurrency simulator (World B of DESIGN.md):
// the real interpreter runs inside a testing/synctest bubble under the race
// detector, and a controller goroutine decides, from one seed, which of the
// interpreter's goroutines makes the next step, when the context is
// cancelled, and which simulated I/O operations fail.
package worldb

import (
	"runtime"
	"sync"
)

const maxG = 96

type gslot struct {
	used   bool
	goid   uint64
	id     string // stable across runs: parent id + "." + child index
	nchild int
	wake   chan struct{}
	parked bool
	point  string
	ended  bool
	anon   bool // not announced by Spawn/Start; never reports End
	// epoch is the index of the program (Run call of the harness) during
	// which this goroutine's lineage was started by the main goroutine;
	// children inherit it.
	epoch int
}

type tokSlot struct {
	used  bool
	tok   uint64
	id    string
	epoch int
}

// Sched owns every scheduling decision of one simulated run. All of its
// state is touched only from //go:norace functions, between raceDisable and
// raceEnable, and lives in fixed arrays (Go maps carry race annotations of
// their own), so that it neither creates happens-before edges nor shows up
// in race reports.
type Sched struct {
	mu       sync.Mutex
	slots    [maxG]gslot
	toks     [maxG]tokSlot
	nextTok  uint64
	kick     chan struct{}
	off      bool // pass-through: yields no longer park (last-resort shutdown)
	anonN    int
	overflow bool
	epoch    int // index of the program the main goroutine is running
}

func newSched() *Sched {
	return &Sched{kick: make(chan struct{}, 1)}
}

// goid returns the runtime id of the calling goroutine by parsing the first
// line of its stack trace ("goroutine 123 [running]:").
//
//go:norace
func goid() uint64 {
	var buf [40]byte
	n := runtime.Stack(buf[:], false)
	var id uint64
	for i := len("goroutine "); i < n; i++ {
		c := buf[i]
		if c < '0' || c > '9' {
			break
		}
		id = id*10 + uint64(c-'0')
	}
	return id
}

//go:norace
func (s *Sched) findLocked(g uint64) *gslot {
	for i := range s.slots {
		if s.slots[i].used && s.slots[i].goid == g && !s.slots[i].ended {
			return &s.slots[i]
		}
	}
	return nil
}

//go:norace
func (s *Sched) allocLocked(g uint64, id string) *gslot {
	for i := range s.slots {
		if !s.slots[i].used {
			sl := &s.slots[i]
			sl.used, sl.goid, sl.id, sl.nchild, sl.parked, sl.point, sl.ended, sl.anon = true, g, id, 0, false, "", false, false
			sl.wake = make(chan struct{}, 1)
			return sl
		}
	}
	s.overflow = true
	return nil
}

// Spawn is called by a goroutine that is about to start another one; the
// child's id is derived from the parent's, so it does not depend on the order
// in which the Go runtime happens to start goroutines.
//
//go:norace
func (s *Sched) Spawn() uint64 {
	raceDisable()
	g := goid()
	s.mu.Lock()
	parent := s.findLocked(g)
	var id string
	if parent == nil {
		s.anonN++
		id = "~spawn" + itoa(s.anonN)
	} else {
		id = parent.id + "." + itoa(parent.nchild)
		parent.nchild++
	}
	ep := s.epoch
	if parent != nil && parent.id != "0" {
		ep = parent.epoch
	}
	s.nextTok++
	tok := s.nextTok
	for i := range s.toks {
		if !s.toks[i].used {
			s.toks[i] = tokSlot{used: true, tok: tok, id: id, epoch: ep}
			break
		}
	}
	s.mu.Unlock()
	raceEnable()
	return tok
}

// Drop releases a token whose goroutine will never start.
//
//go:norace
func (s *Sched) Drop(tok uint64) {
	raceDisable()
	s.mu.Lock()
	for i := range s.toks {
		if s.toks[i].used && s.toks[i].tok == tok {
			s.toks[i].used = false
			break
		}
	}
	s.mu.Unlock()
	raceEnable()
}

// SpawnRoot reserves a fixed id for a goroutine started by the harness itself.
//
//go:norace
func (s *Sched) SpawnRoot(id string) uint64 {
	raceDisable()
	s.mu.Lock()
	s.nextTok++
	tok := s.nextTok
	for i := range s.toks {
		if !s.toks[i].used {
			s.toks[i] = tokSlot{used: true, tok: tok, id: id}
			break
		}
	}
	s.mu.Unlock()
	raceEnable()
	return tok
}

// setEpoch is called by the main goroutine when it starts program i.
//
//go:norace
func (s *Sched) setEpoch(i int) {
	raceDisable()
	s.mu.Lock()
	s.epoch = i
	s.mu.Unlock()
	raceEnable()
}

// leftover reports whether the calling goroutine descends from a job that an
// EARLIER program started (a job that outlived the Run call it belongs to).
//
//go:norace
func (s *Sched) leftover() bool {
	raceDisable()
	g := goid()
	s.mu.Lock()
	sl := s.findLocked(g)
	lo := sl != nil && sl.id != "0" && !sl.anon && sl.epoch < s.epoch
	s.mu.Unlock()
	raceEnable()
	return lo
}

// pointOf returns the last scheduling point of the goroutine with that id.
//
//go:norace
func (s *Sched) pointOf(id string) string {
	raceDisable()
	s.mu.Lock()
	p := "?"
	for i := range s.slots {
		if s.slots[i].used && s.slots[i].id == id {
			p = s.slots[i].point
			if s.slots[i].ended {
				p = "ended"
			}
		}
	}
	s.mu.Unlock()
	raceEnable()
	return p
}

// Start registers the calling goroutine under the id reserved by Spawn and
// parks it: a new goroutine does nothing until the controller picks it.
//
//go:norace
func (s *Sched) Start(tok uint64) {
	raceDisable()
	g := goid()
	s.mu.Lock()
	id := ""
	ep := s.epoch
	for i := range s.toks {
		if s.toks[i].used && s.toks[i].tok == tok {
			id, ep = s.toks[i].id, s.toks[i].epoch
			s.toks[i].used = false
			break
		}
	}
	if id == "" {
		s.anonN++
		id = "~start" + itoa(s.anonN)
	}
	sl := s.allocLocked(g, id)
	if sl != nil {
		sl.epoch = ep
	}
	s.mu.Unlock()
	raceEnable()
	if sl != nil {
		s.park(sl, "start")
	}
}

// End marks the calling goroutine as finished.
//
//go:norace
func (s *Sched) End() {
	raceDisable()
	g := goid()
	s.mu.Lock()
	if sl := s.findLocked(g); sl != nil {
		sl.ended = true
		sl.parked = false
	}
	s.mu.Unlock()
	raceEnable()
}

// Yield parks the calling goroutine at a named scheduling point until the
// controller releases it.
//
//go:norace
func (s *Sched) Yield(point string) {
	if s.off {
		// The run is over and its verdict taken; a goroutine that is still
		// going (e.g. a loop that ignores cancellation) ends here, running
		// its deferred calls, so that the bubble can finish.
		runtime.Goexit()
	}
	raceDisable()
	g := goid()
	s.mu.Lock()
	sl := s.findLocked(g)
	if sl == nil {
		// A goroutine the interpreter did not announce, e.g. the callback
		// of context.AfterFunc. Its identity is the point it first shows
		// up at; equal points are symmetric.
		// equal ids get a suffix by arrival; such goroutines are symmetric
		base, n := "~"+point, 0
		for i := range s.slots {
			if s.slots[i].used && (s.slots[i].id == base || len(s.slots[i].id) > len(base) && s.slots[i].id[:len(base)+1] == base+"#") {
				n++
			}
		}
		if n > 0 {
			base += "#" + itoa(n)
		}
		sl = s.allocLocked(g, base)
		if sl != nil {
			sl.anon = true
			sl.epoch = s.epoch
		}
	}
	s.mu.Unlock()
	raceEnable()
	if sl != nil {
		s.park(sl, point)
	}
}

//go:norace
func (s *Sched) park(sl *gslot, point string) {
	if s.off {
		runtime.Goexit()
	}
	raceDisable()
	s.mu.Lock()
	sl.parked = true
	sl.point = point
	s.mu.Unlock()
	select {
	case s.kick <- struct{}{}:
	default:
	}
	<-sl.wake
	raceEnable()
	if s.off {
		runtime.Goexit()
	}
}

type cand struct {
	idx   int
	id    string
	point string
}

// candidates returns the parked goroutines sorted by stable id.
//
//go:norace
func (s *Sched) candidates(out []cand) []cand {
	out = out[:0]
	raceDisable()
	s.mu.Lock()
	for i := range s.slots {
		sl := &s.slots[i]
		if sl.used && sl.parked && !sl.ended {
			out = append(out, cand{idx: i, id: sl.id, point: sl.point})
		}
	}
	s.mu.Unlock()
	raceEnable()
	// insertion sort by id (few elements)
	for i := 1; i < len(out); i++ {
		for j := i; j > 0 && lessID(out[j].id, out[j-1].id); j-- {
			out[j], out[j-1] = out[j-1], out[j]
		}
	}
	return out
}

// live counts registered goroutines that have not ended.
//
//go:norace
func (s *Sched) live() (n int) {
	raceDisable()
	s.mu.Lock()
	for i := range s.slots {
		if s.slots[i].used && !s.slots[i].ended && (!s.slots[i].anon || s.slots[i].parked) {
			n++
		}
	}
	s.mu.Unlock()
	raceEnable()
	return n
}

//go:norace
func (s *Sched) release(idx int) {
	raceDisable()
	s.mu.Lock()
	sl := &s.slots[idx]
	sl.parked = false
	w := sl.wake
	s.mu.Unlock()
	w <- struct{}{}
	raceEnable()
}

// releaseAll is the last-resort shutdown: yields become pass-through and
// everything parked is let go.
//
//go:norace
func (s *Sched) releaseAll() {
	raceDisable()
	s.mu.Lock()
	s.off = true
	for i := range s.slots {
		sl := &s.slots[i]
		if sl.used && sl.parked {
			sl.parked = false
			select {
			case sl.wake <- struct{}{}:
			default:
			}
		}
	}
	s.mu.Unlock()
	raceEnable()
}

// lessID orders ids like "0.1.10" numerically per component; anonymous ids
// (starting with '~') sort last.
func lessID(a, b string) bool {
	if (a[0] == '~') != (b[0] == '~') {
		return b[0] == '~'
	}
	if a[0] == '~' {
		return a < b
	}
	i, j := 0, 0
	for i < len(a) && j < len(b) {
		x, y := 0, 0
		for i < len(a) && a[i] != '.' {
			x = x*10 + int(a[i]-'0')
			i++
		}
		for j < len(b) && b[j] != '.' {
			y = y*10 + int(b[j]-'0')
			j++
		}
		if x != y {
			return x < y
		}
		i++
		j++
	}
	return len(a) < len(b)
}

func itoa(n int) string {
	if n == 0 {
		return "0"
	}
	var b [20]byte
	i := len(b)
	for n > 0 {
		i--
		b[i] = byte('0' + n%10)
		n /= 10
	}
	return string(b[i:])
}
