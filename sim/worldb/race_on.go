//go:build race

package worldb

import "runtime"

const raceBuild = true

// raceDisable makes the race detector ignore synchronisation events of the
// current goroutine until raceEnable: the scheduler's hand-offs must not
// create happens-before edges between simulated goroutines, or every race
// would be hidden by the very act of serialising them.
func raceDisable()    { runtime.RaceDisable() }
func raceEnable()     { runtime.RaceEnable() }
func raceErrors() int { return runtime.RaceErrors() }
