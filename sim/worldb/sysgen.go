package worldb

import (
	"fmt"
	"strings"

	"verifsim/kit"
)

// sysGen composes state-changing statements from parts (target name x
// operation x subscript x value x wrapper) instead of picking them from a
// hand-written list: the lists in gen.go and cases.go only hold what somebody
// thought of, this generator reaches the combinations nobody listed. Every
// statement is valid shell syntax; whether the interpreter accepts it does
// not matter to the oracles (they compare against a reference run of the same
// text or look at the tree, the Environ and the race detector).
type sysGen struct {
	r      *kit.Rand
	inFunc bool
	env    bool // C29: prefer the names served by the recording Environ
	depth  int
	// theme focuses most statements of a case on one piece of shell state
	// ("dirs", "xtrace", "alias", "opts", "func", "trap", "params",
	// "name:<variable>"), so that both sides of a concurrent construct, or
	// the subshell and the later dump, actually meet on it.
	theme string
}

var sysThemes = []string{"dirs", "xtrace", "alias", "opts", "func", "trap", "params", "name:a", "name:sp", "name:m", "name:s1", "name:e1", "name:IFS", "name:r1", "name:u1"}

// genTheme draws a theme; half of the cases have none.
func genTheme(r *kit.Rand) string {
	if r.Chance(1, 2) {
		return ""
	}
	return kit.Pick(r, sysThemes)
}

// themeSetup returns setup lines that make the themed state non-trivial.
func themeSetup(theme string, r *kit.Rand) []string {
	switch theme {
	case "dirs":
		return []string{kit.Pick(r, []string{"pushd /home/d1 >/dev/null; pushd /home/d2 >/dev/null", "pushd /home/d2 >/dev/null", "cd /home/d1; pushd sub >/dev/null; pushd / >/dev/null; pushd /home >/dev/null"})}
	case "xtrace":
		return []string{"set -x", kit.Pick(r, []string{": traced-once", "tr0=(a b)", "for tr1 in 1; do :; done", "true"})}
	case "alias":
		out := []string{"alias al='echo al-body' a3='echo -n x' a5='echo a b c d' an=y"}
		if r.Chance(2, 3) {
			out = append([]string{"shopt -s expand_aliases"}, out...)
		}
		return out
	case "func":
		return []string{"f1() { echo f1-body; }", "f2() { s2=set-by-f2; }", "f3() { f1; }"}
	case "trap":
		return []string{kit.Pick(r, []string{"trap 'echo t-err' ERR", "trap 'echo t-usr' USR1; trap 'echo t-int' INT", "trap 'echo t-err >&2' ERR"})}
	case "params":
		return []string{"set -- p1 p2 p3 p4"}
	}
	return nil
}

func (g *sysGen) themed() string {
	switch g.theme {
	case "dirs":
		return g.pick("pushd >/dev/null", "pushd >/dev/null", "popd -n >/dev/null", "popd >/dev/null; pushd /home/d2 >/dev/null", "dirs >/dev/null", "echo ${DIRSTACK[1]} >/dev/null", "echo \"${DIRSTACK[@]}\" >/dev/null",
			"pushd +1 >/dev/null", "pushd -n /home/d1 >/dev/null", "dirs -c", "cd /home/d2", "dirs -v >/dev/null", "popd +1 >/dev/null", "pushd /home/d1/sub >/dev/null", "popd >/dev/null", "cd - >/dev/null", "dirs +1 >/dev/null", "pushd -0 >/dev/null", "echo ${#DIRSTACK[@]} $PWD $OLDPWD >/dev/null")
	case "xtrace":
		return g.pick("a=(x y z)", "for i in 1 2 3; do :; done", "case $s1 in f*) :;; *) :;; esac", "let 'n=1+2'", "(( n = 1 + 2 ))", "[[ $s1 == f* ]]", "sp=([3]=q)", "m=([k]=v)", "declare -a arr2=(1 2)", "s1=$s2", "f1 >/dev/null", "echo ${a[@]} >/dev/null",
			"for ((i=0; i<2; i++)); do :; done", "x=$(echo sub)", "s2=v a[1]=w true", "cat <<< $s1 >/dev/null", "[[ a =~ (a) ]]", "set +x", "set -x", "select_skip=1", "while false; do :; done", "if true; then :; fi")
	case "alias":
		an := g.pick("al", "an", "a3", "a5", "new1")
		return g.pick(
			fmt.Sprintf("alias %s='echo %s'", an, g.pick("changed", "c h", "a b c", "w x y z t")),
			"unalias "+an, "unalias -a", "alias "+an+" >/dev/null", "alias >/dev/null",
			fmt.Sprintf("%s arg1 >/dev/null", an), fmt.Sprintf("%s \"$s1\" x >/dev/null", an), fmt.Sprintf("%s a b c >/dev/null", an),
			"shopt -s expand_aliases", "shopt -u expand_aliases", "type "+an+" >/dev/null", fmt.Sprintf("alias %s=\"$s1 \" new2='%s '", an, an))
	case "opts":
		o := g.pick("noglob", "nounset", "pipefail", "allexport", "errexit", "xtrace", "dotglob", "nullglob", "extglob", "globstar", "nocaseglob", "expand_aliases")
		return g.pick("set -o "+o, "set +o "+o, "shopt -s "+o, "shopt -u "+o, "shopt -s -o "+o, "shopt -q "+o, "echo /home/d1/*.sh /home/d1/nomatch* >/dev/null", "echo \"[${undef-}]\" >/dev/null", "shopt >/dev/null", "set +o >/dev/null", "echo $- >/dev/null", "set -f", "set +f", "set -u", "set +u", "false | true", "v9=1; declare -p v9 >/dev/null", "echo /home/**/g.sh /home/d1/@(g|loop).sh /home/d1/G* >/dev/null", "[[ -o "+o+" ]]")
	case "func":
		fn := g.pick("f1", "f2", "f3", "fnew")
		return g.pick(
			fmt.Sprintf("%s() { echo %s; }", fn, g.pick("changed", "$s1", "new-body")),
			fmt.Sprintf("function %s { s2=by-%s; }", fn, fn), "unset -f "+fn, fn+" >/dev/null", fn+" arg >/dev/null", "declare -f "+fn+" >/dev/null", "declare -F >/dev/null", "type "+fn+" >/dev/null",
			fmt.Sprintf("%s() { %s() { echo inner; }; }; %s", fn, g.pick("f1", "fnew"), fn), fmt.Sprintf("%s() { unset -f %s; }; %s", fn, fn, fn))
	case "trap":
		sig := g.pick("EXIT", "ERR", "INT", "USR1", "DEBUG", "RETURN", "TERM")
		return g.pick(fmt.Sprintf("trap 'echo trap-%s' %s", sig, sig), fmt.Sprintf("trap '%s' %s", g.simpleAssign(), sig), "trap - "+sig, "trap '' "+sig, "trap >/dev/null", "trap -p >/dev/null", "false", "f1 >/dev/null", "(exit 2)", "trap -p "+sig+" >/dev/null")
	case "params":
		return g.pick("set -- q1", "set --", "set -- x y z w", "shift", "shift 2", "shift 9", "set -- \"${@:2}\"", "set -- \"$@\" more", "echo $# $* $1 >/dev/null", "for p; do :; done", "echo \"${@:2}\" ${!#} >/dev/null", "f1 \"$@\" >/dev/null", "fp() { shift; set -- in-func; }; fp a b", "echo \"$*\" >/dev/null", "IFS=: eval 'echo \"$*\"' >/dev/null", "getopts ab opt \"$@\"", "s1=$2$3", "set -- $s1 ${a[@]}")
	}
	return ""
}

type sysName struct{ n, kind string }

func (g *sysGen) names() []sysName {
	if g.env {
		return []sysName{{"ENVSTR", "str"}, {"ENVARR", "idx"}, {"ENVSPARSE", "idx"}, {"ENVMAP", "assoc"}, {"ENVRO", "str"}, {"s1", "str"}, {"arr", "idx"}, {"u1", "unset"}, {"ENVARR", "idx"}, {"ENVMAP", "assoc"}, {"ENVSPARSE", "idx"}}
	}
	ns := []sysName{{"s1", "str"}, {"s2", "str"}, {"s3", "unset"}, {"e1", "str"}, {"r1", "str"}, {"a", "idx"}, {"a", "idx"}, {"sp", "idx"}, {"sp", "idx"}, {"m", "assoc"}, {"m", "assoc"}, {"u1", "unset"}, {"gv", "unset"},
		{"IFS", "str"}, {"OPTIND", "str"}, {"REPLY", "str"}, {"HOME", "str"}, {"OPTARG", "str"}}
	if g.inFunc {
		ns = append(ns, sysName{"l1", "str"}, sysName{"la", "idx"}, sysName{"l2", "unset"}, sysName{"la", "idx"})
	}
	return ns
}

// name2 draws a second name for statements that touch two; never IFS (see
// core: its value must stay free of hexadecimal digits).
func (g *sysGen) name2() string {
	for {
		if n := g.name().n; n != "IFS" {
			return n
		}
	}
}

func (g *sysGen) nameNotAssoc() string {
	for {
		if v := g.name(); v.kind != "assoc" && v.n != "IFS" {
			return v.n
		}
	}
}

func (g *sysGen) pick(xs ...string) string { return xs[g.r.Intn(len(xs))] }

func (g *sysGen) name() sysName {
	ns := g.names()
	if strings.HasPrefix(g.theme, "name:") && g.r.Chance(4, 5) {
		want := g.theme[len("name:"):]
		for _, n := range ns {
			if n.n == want {
				return n
			}
		}
	}
	return ns[g.r.Intn(len(ns))]
}

// idx draws a subscript; the kind of the target only biases the choice, a
// string subscript on an indexed array (evaluates to 0) or a number on an
// associative one are legal too.
func (g *sysGen) idx(kind string) string {
	num := []string{"0", "1", "2", "3", "4", "5", "7", "9", "-1", "-2", "-9", "1+1", "$((1))", "n", "10#2", "99"}
	str := []string{"k", "k2", "nk", "z", "'a b'", "$s1", "1", "\"$s2\"", "k$((1))"}
	switch {
	case kind == "assoc":
		// an arithmetic-looking or missing subscript on an associative
		// array panics the interpreter on its own (assignVal asserts
		// *syntax.Word); that is outside the claimed properties, so the
		// shape is not drawn
		return g.pick(str...)
	case kind == "num" || g.r.Chance(7, 8):
		return g.pick(num...)
	}
	return g.pick(str...)
}

func (g *sysGen) val() string {
	return g.pick("x", "v2", "'a b'", "\"\"", "$s1", "\"$s1$s2\"", "$(echo cs)", "${s2:-d}", "1", "07", "\"${a[0]}\"", "${#a[@]}", "$((2+3))", "x{1,2}", "~", "/home/d1/*.sh", "\"q r\"")
}

func (g *sysGen) words(n int) string {
	var w []string
	for i := 0; i < n; i++ {
		w = append(w, g.val())
	}
	return strings.Join(w, " ")
}

func (g *sysGen) elems(kind string) string {
	// A compound value whose first element has a string subscript is taken
	// as an associative one, and a bare word in it then panics the
	// interpreter on its own; so string subscripts and bare words are not
	// mixed.
	allSub := kind == "assoc" || g.r.Chance(1, 4)
	subKind := "num"
	if kind == "assoc" || g.r.Chance(1, 4) {
		subKind = "assoc" // string subscripts only
	}
	var w []string
	for i := g.r.Range(0, 4); i > 0; i-- {
		switch {
		case allSub:
			w = append(w, fmt.Sprintf("[%s]=%s", g.idx(subKind), g.val()))
		case g.r.Chance(1, 3):
			w = append(w, g.val())
		default:
			w = append(w, fmt.Sprintf("[%s]=%s", g.pick("0", "1", "2", "5", "9", "-1", "1+1", "n", "$((2))"), g.val()))
		}
	}
	return strings.Join(w, " ")
}

func noQuoteNL(s string) bool { return !strings.ContainsAny(s, "'\n") }

// core draws one unwrapped statement.
func (g *sysGen) core() string {
	if g.theme != "" && !strings.HasPrefix(g.theme, "name:") && g.r.Chance(2, 3) {
		if s := g.themed(); s != "" {
			return s
		}
	}
	v := g.name()
	n, k := v.n, v.kind
	if n == "IFS" {
		// Values without hexadecimal digits only: the interpreter splits
		// the result of an unquoted <( ) on IFS, and the FIFO's path ends in
		// a random hexadecimal number, so an IFS of "07" would make runs
		// differ from one process to the next.
		return g.pick("IFS=:", "IFS=',;'", "IFS=''", "IFS=", "IFS=x", "IFS=' '", "unset IFS", "IFS=$'\\n'", "IFS=-", "IFS+=:", "export IFS=:", "local IFS=: 2>/dev/null", "IFS=: read x2 rest <<< 'p:q r'", "declare IFS=,", "readonly IFS=: 2>/dev/null")
	}
	switch g.r.Intn(35) {
	case 0:
		return fmt.Sprintf("%s=%s", n, g.val())
	case 1:
		return fmt.Sprintf("%s+=%s", n, g.val())
	case 2:
		return fmt.Sprintf("%s=(%s)", n, g.words(g.r.Intn(4)))
	case 3:
		if k == "assoc" {
			return fmt.Sprintf("%s+=(%s)", n, g.elems(k)) // bare words appended to an associative array panic on their own
		}
		return fmt.Sprintf("%s+=(%s)", n, g.words(g.r.Range(0, 3)))
	case 4:
		return fmt.Sprintf("%s=(%s)", n, g.elems(k))
	case 5:
		return fmt.Sprintf("%s+=(%s)", n, g.elems(k))
	case 6, 7:
		return fmt.Sprintf("%s[%s]=%s", n, g.idx(k), g.val())
	case 8:
		return fmt.Sprintf("%s[%s]+=%s", n, g.idx(k), g.val())
	case 9:
		return g.pick("unset ", "unset -v ", "unset ") + n
	case 10, 11:
		return fmt.Sprintf("unset '%s[%s]'", n, g.idx(k))
	case 12:
		return fmt.Sprintf("unset '%s[%s]' '%s[%s]'", n, g.idx(k), n, g.idx(k))
	case 13, 14:
		// the declaration builtins with flag combinations
		cmd := g.pick("declare", "declare", "typeset", "export", "readonly", "declare -g")
		if g.inFunc && g.r.Chance(1, 2) {
			cmd = "local"
		}
		flags := ""
		if cmd != "export" && cmd != "readonly" {
			for i := g.r.Intn(3); i > 0; i-- {
				f := g.pick("-a", "-A", "-x", "-r", "-i", "-l", "-u", "-n", "+x", "+r", "-p", "+i")
				if f == "-A" && k != "assoc" {
					f = "-a"
				}
				flags += " " + f
			}
		} else if g.r.Chance(1, 4) {
			flags = " " + g.pick("-n", "-p", "-a", "-f")
		}
		switch g.r.Intn(4) {
		case 0:
			return fmt.Sprintf("%s%s %s", cmd, flags, n)
		case 1:
			return fmt.Sprintf("%s%s %s=%s", cmd, flags, n, g.val())
		case 2:
			return fmt.Sprintf("%s%s %s=(%s)", cmd, flags, n, g.elems(k))
		default:
			return fmt.Sprintf("%s%s %s %s=%s", cmd, flags, n, g.name2(), g.val())
		}
	case 15:
		return g.pick(
			fmt.Sprintf("read %s <<< %s", n, g.val()),
			fmt.Sprintf("read -r %s rest <<< 'p q r'", n),
			fmt.Sprintf("read -a %s <<< 'r1 r2 r3'", n),
			fmt.Sprintf("read '%s[%s]' <<< rd", n, g.idx(k)),
			fmt.Sprintf("read <<< to-reply"),
			fmt.Sprintf("IFS=: read %s x2 <<< 'c:d'", n),
			fmt.Sprintf("read -n 2 %s <<< abcdef", n),
			fmt.Sprintf("read -d : %s <<< 'ab:cd'", n))
	case 16:
		return g.pick(
			fmt.Sprintf("mapfile -t %s <<< $'l1\\nl2'", n),
			fmt.Sprintf("mapfile %s < /home/f2.txt", n),
			fmt.Sprintf("readarray -t %s <<< one", n),
			fmt.Sprintf("mapfile -t -O 2 %s <<< off", n),
			fmt.Sprintf("mapfile -t -n 1 %s < /home/f2.txt", n))
	case 17:
		return g.pick(
			fmt.Sprintf("printf -v %s %%s pv", n),
			fmt.Sprintf("printf -v '%s[%s]' '%%s-%%s' p q", n, g.idx(k)),
			fmt.Sprintf("printf -v %s '%%d' 42", n),
			fmt.Sprintf("getopts ab %s -a", n),
			fmt.Sprintf("getopts a:b %s -a arg -b", n),
			fmt.Sprintf("OPTIND=1; getopts :x %s -y", n))
	case 18:
		return g.pick(
			fmt.Sprintf("for %s in %s; do :; done", n, g.words(g.r.Range(1, 3))),
			fmt.Sprintf("for ((%s=0; %s<2; %s++)); do :; done", n, n, n),
			fmt.Sprintf("for %s; do :; done", n))
	case 19:
		return g.pick(
			fmt.Sprintf(": ${%s:=%s}", n, g.val()),
			fmt.Sprintf(": ${%s=%s}", n, g.val()),
			fmt.Sprintf(": ${%s[%s]:=%s}", n, g.idx(k), g.val()),
			fmt.Sprintf(": \"${%s[%s]=%s}\"", n, g.idx(k), g.val()),
			fmt.Sprintf("cat <<EOF >/dev/null\n${%s:=%s}\nEOF", n, g.pick("hd", "$s1", "x")),
			fmt.Sprintf("[[ -z ${%s:=%s} ]]", n, g.pick("t", "$s1")),
			fmt.Sprintf("echo ${%s[%s]:=%s} >/dev/null", n, g.idx(k), g.val()))
	case 20:
		return g.pick(
			fmt.Sprintf("((%s=%d))", n, g.r.Intn(9)),
			fmt.Sprintf("((%s+=2))", n),
			fmt.Sprintf("((%s++))", n),
			fmt.Sprintf(": $((%s=%d))", n, g.r.Intn(9)),
			fmt.Sprintf(": $((%s*=2)) $((--%s))", n, n),
			fmt.Sprintf("let '%s=%d'", n, g.r.Intn(9)),
			fmt.Sprintf("let '%s++'", n),
			fmt.Sprintf("%s=$((%s+1))", n, n))
	case 21:
		// assignments in front of a command
		cmd := g.pick("true", ":", "f1", "eval :", "command true", "export "+n, "builtin true", "fail 1", "eval 's2=$"+n+"'", "read x2 <<< r", "source /home/d1/g.sh", "declare -p "+n+" >/dev/null", "f2")
		return fmt.Sprintf("%s=%s %s", n, g.val(), cmd)
	case 22:
		ref := g.pick("nref", "aref")
		return g.pick(
			fmt.Sprintf("declare -n %s=%s; %s=%s", ref, n, ref, g.val()),
			fmt.Sprintf("declare -n %s=%s; %s[%s]=%s", ref, n, ref, g.idx(k), g.val()),
			fmt.Sprintf("declare -n %s=%s; %s+=(%s)", ref, n, ref, g.words(1)),
			fmt.Sprintf("declare -n %s=%s; unset %s", ref, n, ref),
			fmt.Sprintf("declare -n %s=%s; unset -n %s", ref, n, ref),
			fmt.Sprintf("declare -n %s='%s[%s]'; %s=%s", ref, n, g.idx(k), ref, g.val()),
			fmt.Sprintf("declare -n %s=%s; unset '%s[%s]'", ref, n, ref, g.idx(k)))
	case 23:
		return g.pick("set -o", "set +o", "shopt -s", "shopt -u", "shopt -s -o", "shopt -u -o") + " " +
			g.pick("allexport", "errexit", "noglob", "nounset", "xtrace", "pipefail", "dotglob", "expand_aliases", "extglob", "globstar", "nocaseglob", "nullglob", "nosuchopt")
	case 24:
		return g.pick("set -", "set +") + g.pick("a", "e", "f", "u", "x", "ef", "ux", "af", "C")
	case 25:
		an := g.pick("al", "an", "ao", "a3", "a5", "new1")
		return g.pick(
			fmt.Sprintf("alias %s='echo %s'", an, g.pick("changed", "c h", "a b c", "w x y z t")),
			fmt.Sprintf("alias %s=%s %s=y", an, g.pick("x", "'echo -n q'"), g.pick("al", "an", "new2")),
			"unalias "+an, "unalias -a", "unalias "+an+" nosuch", "alias "+an, "alias >/dev/null",
			fmt.Sprintf("%s arg1 arg2 >/dev/null", an), fmt.Sprintf("%s \"$s1\" >/dev/null", an))
	case 26:
		fn := g.pick("f1", "f2", "fnew", "f3")
		return g.pick(
			fmt.Sprintf("%s() { echo %s; }", fn, g.pick("changed", "$s1", "new-body")),
			fmt.Sprintf("%s() { # about %s\n%s # trailing\n}\ndeclare -f %s >/dev/null", fn, fn, g.simpleAssign(), fn),
			fmt.Sprintf("function %s { s2=by-%s; a[0]=by-%s; }", fn, fn, fn),
			"unset -f "+fn, fn, fn+" arg", "declare -f "+fn+" >/dev/null", "unset "+fn,
			fmt.Sprintf("%s() { local s1=in-%s; %s; }; %s", fn, fn, g.simpleAssign(), fn),
			fmt.Sprintf("%s() { %s() { :; }; }; %s", fn, g.pick("f1", "fnew"), fn))
	case 27:
		sig := g.pick("EXIT", "ERR", "INT", "USR1", "DEBUG", "RETURN", "0", "TERM")
		return g.pick(
			fmt.Sprintf("trap 'echo trap-%s' %s", sig, sig),
			fmt.Sprintf("trap '%s' %s", g.simpleAssign(), sig),
			"trap - "+sig, "trap '' "+sig, "trap >/dev/null", "trap -p >/dev/null", "trap -l >/dev/null",
			fmt.Sprintf("trap 's2=from-err-trap' ERR; false"))
	case 28:
		return g.pick("cd /home/d2", "cd /", "cd /home/d1/sub", "cd ..", "cd - >/dev/null", "cd", "cd nosuch", "cd /home/d1 /home/d2",
			"pushd /home/d2 >/dev/null", "pushd >/dev/null", "pushd -n /home/d1 >/dev/null", "pushd +1 >/dev/null", "pushd -0 >/dev/null", "pushd nosuch",
			"popd >/dev/null", "popd -n >/dev/null", "popd +0 >/dev/null", "popd +1 >/dev/null", "popd -0 >/dev/null", "popd +9",
			"dirs -c", "dirs -v >/dev/null", "dirs +1 >/dev/null", "PWD=/fake", "OLDPWD=/fake-old", "cd \"$OLDPWD\"", "cd -P . 2>/dev/null", "cd -L /home")
	case 29:
		return g.pick("set -- q1", "set --", "set -- x y z w", "shift", "shift 2", "shift 9", "shift 0", "set -- \"${@:2}\"", "set -- \"$@\" more", "set x y", "set - a b", "set -- -x", "set -o nounset -- p", "set +u -- $s1")
	case 30:
		return g.pick("true <&-", "{ :; } >&-", "f1 2>&-", "read x2 <&- 2>/dev/null", ": 3<&0 <&-", "exec 3</home/f1.txt", "exec 3>&-", "exec >/home/o.txt", "exec 2>&1", "exec </home/f2.txt", "exec 4>/home/o4.txt; echo x >&4", "exec 2>/dev/null",
			"hash -r", "hash", "wait", "true & wait", "eval", "eval ''", "builtin cd /", "command cd /home/d2", "command -v f1 >/dev/null", "type -t f1 >/dev/null",
			"[[ $s1 =~ ^(f)(o+) ]]", "[[ ab =~ (a)(b) ]]", "true | false | true", "false", "(exit 3)", "! true")
	case 33:
		// here-documents: reader x delimiter form x body with expansions
		delim := g.pick("EOF", "'EOF'", "\"EOF\"", "\\EOF", "'E'OF", "\"E\"OF", "E\\OF", "EOF")
		op := g.pick("<<", "<<", "<<-")
		body := g.pick("$s1 ${a[0]} $(echo cs) $((1+2))", "${"+n+":=hd}", "plain text", "$s1\n$(echo l2)\n${s2:-d}", "`echo bq` \\$esc \\\\", "")
		rdr := g.pick("cat >/dev/null", "read "+n, "while read l; do :; done", "mapfile -t "+n, "{ cat | cat; } >/dev/null", ": ", "read -r a1 b1", "f1", "{ read l1; read l2; }")
		return fmt.Sprintf("%s %s%s\n%s\nEOF", rdr, op, delim, body)
	case 31:
		// statements that end the enclosing shell or loop early
		return g.pick("exit", "exit 3", "return 2>/dev/null", "return 4 2>/dev/null", "break 2>/dev/null", "continue 2>/dev/null", "exit $?", "false || exit 5", "set -e; false", ": ${u9?unset-error}", "set -u; : $u9", "readonly rr=1; rr=2")
	case 32:
		// two names at once
		n2 := g.name2()
		return g.pick(
			fmt.Sprintf("%s=%s %s=$%s", n, g.val(), n2, n),
			// (not from an associative array: its keys and values come
			// out in Go map order, which differs from run to run)
			fmt.Sprintf("%s=(\"${%s[@]}\")", n, g.nameNotAssoc()),
			fmt.Sprintf("%s=(\"${!%s[@]}\")", n, g.nameNotAssoc()),
			fmt.Sprintf("%s=$%s; unset %s", n, n2, n2),
			fmt.Sprintf("%s[%s]=${%s[0]}", n, g.idx(k), n2),
			fmt.Sprintf("read %s %s <<< 'w1 w2'", n, n2),
			fmt.Sprintf("unset %s %s", n, n2),
			fmt.Sprintf("declare %s=1 %s=2", n, n2),
			fmt.Sprintf("export %s %s", n, n2),
			fmt.Sprintf("for %s in 1 2; do %s+=$%s; done", n, n2, n))
	default:
		return g.pick("IFS=:", "IFS=", "unset IFS", "OPTIND=3", "OPTIND=1", "HOME=/changed", "unset HOME", "PATH=/nowhere", "REPLY=r", "OPTARG=oa", "LINENO=5", "SECONDS=100 2>/dev/null", "PS4='+ '", "BASH_REMATCH=x 2>/dev/null", "PIPESTATUS=1 2>/dev/null", "FUNCNAME=f 2>/dev/null", "UID=5 2>/dev/null", "PPID=1 2>/dev/null", "RANDOM=1; : $RANDOM", "_=under")
	}
}

// simpleAssign is a quote-free assignment usable inside '...'.
func (g *sysGen) simpleAssign() string {
	v := g.name()
	for v.n == "IFS" { // "IFS=t3" would put a digit into IFS, see core
		v = g.name()
	}
	return g.pick(
		fmt.Sprintf("%s=t%d", v.n, g.r.Intn(9)),
		fmt.Sprintf("%s+=t", v.n),
		fmt.Sprintf("%s[%s]=t", v.n, g.pick("0", "1", "-1", "k", "5")),
		fmt.Sprintf("%s+=(t)", v.n),
		"unset "+v.n,
		fmt.Sprintf("unset %s[%s]", v.n, g.pick("0", "1", "-1", "k")))
}

// Stmt draws a statement, sometimes wrapped in another construct that runs
// it in the same shell (or, rarely, in a nested isolating context).
func (g *sysGen) Stmt() string {
	s := g.core()
	if g.depth > 1 || !g.r.Chance(1, 3) {
		return s
	}
	g.depth++
	defer func() { g.depth-- }()
	oneLine := !strings.Contains(s, "\n")
	if strings.HasPrefix(s, "let ") || strings.HasPrefix(s, "! ") {
		// "let" takes a following redirection as part of its expression,
		// and "!" is only valid at the start of a statement
		s = "{ " + s + "; }"
	}
	switch g.r.Intn(26) {
	case 0:
		return "{\n" + s + "\n}"
	case 1:
		fn := g.pick("fw", "fw2", "f3")
		return fn + "() {\n" + s + "\n}; " + fn + g.pick("", " arg1 arg2")
	case 2:
		if noQuoteNL(s) {
			return "eval '" + s + "'"
		}
	case 3:
		return "if true; then\n" + s + "\nfi"
	case 4:
		return "for _i in 1 2; do\n" + s + "\ndone"
	case 5:
		return "while true; do\n" + s + "\nbreak\ndone"
	case 6:
		return "case x in\nx)\n" + s + "\n;;\nesac"
	case 7:
		if oneLine {
			return s + " && " + g.core2()
		}
	case 8:
		if oneLine {
			return s + " || " + g.core2()
		}
	case 9:
		if oneLine {
			return "! " + s
		}
	case 10:
		return "(\n" + s + "\n)"
	case 11:
		return "x2=$(\n" + s + "\n)"
	case 12:
		if oneLine {
			return s + " | cat >/dev/null"
		}
	case 13:
		if oneLine {
			return "true | " + s
		}
	case 14:
		if noQuoteNL(s) {
			return "trap '" + s + "' EXIT"
		}
	case 15:
		if noQuoteNL(s) {
			return "trap '" + s + "' ERR; false"
		}
	case 16:
		if oneLine {
			return "{ " + s + "; } &\nwait"
		}
	case 17:
		if oneLine {
			return s + " >/dev/null 2>&1"
		}
	case 18:
		if oneLine {
			return s + " < /home/f1.txt"
		}
	case 19:
		return "until\n" + s + "\ndo break; done"
	case 20:
		if oneLine {
			return "if " + s + "; then :; else :; fi"
		}
	case 21:
		if oneLine {
			return "time " + s + " 2>/dev/null"
		}
	case 22:
		if oneLine {
			return "cat <(" + s + ") >/dev/null"
		}
	case 23:
		fn := g.pick("fw", "fl")
		if g.r.Chance(1, 2) {
			return fn + "() {\nlocal " + g.name2() + "\n" + s + "\n}; " + fn
		}
		return fn + "() {\nlocal " + g.name2() + "=lv\n" + s + "\n}; " + fn
	case 24:
		if oneLine {
			return "set -x; " + s + "; set +x"
		}
	case 25:
		return s + "\n" + g.core2()
	}
	return s
}

func (g *sysGen) core2() string {
	s := g.core()
	if strings.Contains(s, "\n") {
		return ":"
	}
	return s
}

// sysStatements draws n composed statements.
func sysStatements(r *kit.Rand, n int, inFunc, env bool) []string {
	g := &sysGen{r: r, inFunc: inFunc, env: env}
	out := make([]string, 0, n)
	for i := 0; i < n; i++ {
		out = append(out, g.Stmt())
	}
	return out
}

// ---- C31: programs that can never finish by themselves, composed from a
// blocking or looping core and constructs around it that consume, negate,
// redirect or defer its status.

type c31Core struct {
	text  string
	stdin string // "nil" or "silent"
}

var c31Cores = []c31Core{
	{"while true; do :; done", "nil"}, {"until false; do x=1; done", "nil"}, {"for ((;;)); do :; done", "nil"}, {"while :; do sleep 1; done", "nil"},
	{"sleep 1000", "nil"}, {"sleep 1000 & wait", "nil"}, {"sleep 1000 & wait $!", "nil"}, {"sleep 1000 & wait g1", "nil"},
	{"read x", "silent"}, {"read -a arr", "silent"}, {"mapfile lines", "silent"}, {"cat", "silent"}, {"cat | drain", "silent"}, {"while read l; do :; done", "silent"},
	{"select o in a b; do :; done", "silent"}, {"read a & read b & read c & read d; wait", "silent"}, {"x=$(< /dev/zero)", "nil"}, {"cat < /dev/zero | drain", "nil"}, {"read x < /dev/zero", "nil"}, {"mapfile -t ls < /dev/yes", "nil"}, {"while read l; do :; done < /dev/yes", "nil"}, {"stubborn", "nil"}, {"yes | drain", "nil"}, {"while :; do echo y; done | drain", "nil"}, {"sleep 1000 | cat", "nil"},
	{": <(echo hi); wait", "nil"}, {"echo <(echo hi) >/dev/null; wait", "nil"}, {"while true; do x=$(echo y); done", "nil"}, {"while true; do ( : ); done", "nil"},
}

func c31Wrap(r *kit.Rand, b string, depth int) string {
	oneLine := !strings.Contains(b, "\n")
	if !oneLine {
		return "{\n" + b + "\n}"
	}
	switch r.Intn(44) {
	case 0:
		return "( " + b + " )"
	case 1:
		return "{ " + b + "; }"
	case 2:
		return "if " + b + "; then :; fi"
	case 3:
		return "if ( " + b + " ); then echo yes; else echo no; fi"
	case 4:
		return "while " + b + "; do :; done"
	case 5:
		return "while ( " + b + " ); do :; done"
	case 6:
		return "until ( " + b + " ); do break; done"
	case 7:
		return "! " + b
	case 8:
		return "! ( " + b + " )"
	case 9:
		return b + " || true"
	case 10:
		return b + " && echo then"
	case 11:
		return "( " + b + " ) || echo recovered"
	case 12:
		return "x=$(" + b + ")"
	case 13:
		return ": $(" + b + ")"
	case 14:
		return "echo \"got $(" + b + ")\""
	case 15:
		return "cat <(" + b + ")"
	case 16:
		return b + " | cat"
	case 17:
		return "true | " + b
	case 18:
		return "fb() { " + b + "; }; fb"
	case 19:
		return "fb() { " + b + "; }; fb || true"
	case 20:
		if !strings.Contains(b, "'") {
			return "eval '" + b + "'"
		}
	case 21:
		if !strings.Contains(b, "'") {
			return "trap '" + b + "' EXIT"
		}
	case 22:
		if !strings.Contains(b, "'") {
			return "trap '" + b + "' ERR; false"
		}
	case 23:
		return "time " + b
	case 24:
		return "{ " + b + "; } &\nwait"
	case 25:
		return "( " + b + " ) &\nwait $!"
	case 26:
		return "case $(" + b + ") in *) :;; esac"
	case 27:
		return "for i in $(" + b + "); do :; done"
	case 28:
		return "[[ -n $(" + b + ") ]]"
	case 29:
		return "echo ${unset_v:-$(" + b + ")}"
	case 30:
		return "arr=($(" + b + "))"
	case 31:
		return "cat <<EOF\n$(" + b + ")\nEOF"
	case 32:
		return "{ " + b + "; } > /home/o.txt"
	case 33:
		return "{ " + b + "; } 2>&1 | drain"
	case 34:
		return "x=$( ( " + b + " ) )"
	case 35:
		return "if ! ( " + b + " ); then :; fi"
	case 36:
		return "while ! ( " + b + " ); do :; done"
	case 37:
		return "( " + b + " ) && ( echo second )"
	case 38:
		return "x=$(echo <(" + b + "))"
	case 39:
		return "echo \"got $(: >(" + b + "))\""
	case 40:
		return "for i in 1 2; do " + b + "; done"
	case 41:
		return "( ( " + b + " ) )"
	case 42:
		return "v=1 eval :; " + b
	case 43:
		return "{ ( " + b + " ); } || { echo alt; }"
	}
	return "{ " + b + "; }"
}

// genC31Composed draws a composed never-ending program.
func genC31Composed(r *kit.Rand) (name string, lines []string, stdin string) {
	core := c31Cores[r.Intn(len(c31Cores))]
	prog := core.text
	depth := r.Range(1, 2)
	for i := 0; i < depth; i++ {
		prog = c31Wrap(r, prog, i)
	}
	lines = append(lines, strings.Split(prog, "\n")...)
	// joinProg joins with newlines again; keep multi-line programs whole
	lines = []string{prog}
	if r.Chance(1, 2) {
		lines = append(lines, "echo after")
	}
	return "composed:" + core.text, lines, core.stdin
}
