package worldb

import (
	"context"
	"errors"
	"fmt"
	"io"
	"io/fs"
	"os"
	"sort"
	"strconv"
	"strings"
	"sync"
	"syscall"
	"time"

	"mvdan.cc/sh/v3/interp"
)

// World is the simulated environment of one run: scheduler, pipes, named
// pipes, files, commands, and the fault plan.
type World struct {
	S *Sched

	pipeCap  int
	npipes   int // assigned under the invisible lock
	pipesAll [256]*SimPipe

	dead bool // shutdown: every simulated operation fails fast

	fifos  [64]fifoEntry
	nfifos int

	files  [128]fileEntry
	nfiles int

	imu sync.Mutex // invisible lock (always taken between raceDisable/raceEnable)

	faults  []Fault
	fired   [32]bool // per fault index
	opCount [8]int   // per fault-kind counters (index by faultKind)

	probes [nProbes]int64

	out, errOut *Sink

	ms        mainState
	panicText string
}

// Fault is one injected fault: Kind happens at the N-th operation of that
// kind (0-based), or for the given path.
type Fault struct {
	Kind string `json:"kind"` // open-enoent open-eacces open-enospc open-fatal exec-fatal exec-fail mkfifo-fail fifo-open-fail short-read stdout-error
	N    int    `json:"n"`
	Arg  int    `json:"arg,omitempty"`
}

const (
	fkOpen = iota
	fkExec
	fkMkfifo
	fkFifoOpen
	fkPipeRead
	fkStdout
)

const (
	pBlockedRead = iota
	pBlockedWrite
	pBlockedFifoOpen
	pDeadlineWake
	pEPIPE
	pAnonGoroutine
	pShortRead
	pSleepCancelled
	pStubbornIgnoredCancel
	pLateWrite
	nProbes
)

var probeNames = [nProbes]string{"reader-blocked-on-empty-pipe", "writer-blocked-on-full-pipe", "fifo-open-blocked-waiting-for-peer", "blocked-read-woken-by-deadline", "write-to-pipe-without-reader", "unannounced-goroutine-scheduled", "short-pipe-read", "sleeping-command-cancelled", "command-ignored-cancellation", "output-of-a-job-left-over-from-an-earlier-program"}

//go:norace
func (w *World) probe(i int) {
	raceDisable()
	w.imu.Lock()
	w.probes[i]++
	w.imu.Unlock()
	raceEnable()
}

// faultAt reports whether a fault of the given kind fires at this operation
// and returns it. kindIdx counts operations of that kind.
//
//go:norace
func (w *World) faultAt(kindIdx int, kinds string) (Fault, bool) {
	raceDisable()
	w.imu.Lock()
	n := w.opCount[kindIdx]
	w.opCount[kindIdx]++
	var hit Fault
	ok := false
	if !w.dead {
		for i := range w.faults {
			f := w.faults[i]
			if !w.fired[i] && f.N == n && strings.Contains(kinds, "|"+f.Kind+"|") {
				w.fired[i] = true
				hit, ok = f, true
				break
			}
		}
	}
	w.imu.Unlock()
	raceEnable()
	return hit, ok
}

//go:norace
func (w *World) isDead() bool { return w.dead }

// ------------------------------------------------------------------ sink

// Sink is the top-level stdout/stderr of a run. Appends are invisible to the
// race detector so that sharing it does not order the writers.
type Sink struct {
	w      *World
	mu     sync.Mutex
	buf    []byte
	failAt int // -1: never; else Write fails once that many bytes were accepted
	name   string
	// late holds what jobs left over from earlier programs wrote: it is
	// their program's output, not the current one's.
	late []byte
}

//go:norace
func (s *Sink) Write(p []byte) (int, error) {
	s.w.S.Yield(s.name + ".write")
	if s.w.S.leftover() {
		raceDisable()
		s.mu.Lock()
		for i := range p {
			s.late = append(s.late, p[i])
		}
		s.mu.Unlock()
		raceEnable()
		s.w.probe(pLateWrite)
		return len(p), nil
	}
	raceDisable()
	s.mu.Lock()
	var err error
	n := len(p)
	if s.failAt >= 0 && len(s.buf)+n > s.failAt {
		n = s.failAt - len(s.buf)
		if n < 0 {
			n = 0
		}
		err = errSinkFull
	}
	for i := 0; i < n; i++ {
		s.buf = append(s.buf, p[i])
	}
	s.mu.Unlock()
	raceEnable()
	return n, err
}

var errSinkFull = errors.New("verif: simulated stdout write error")

//go:norace
func (s *Sink) String() string {
	raceDisable()
	s.mu.Lock()
	out := string(s.buf)
	s.mu.Unlock()
	raceEnable()
	return out
}

// ------------------------------------------------------------------ pipes

// SimPipe is a bounded in-memory pipe whose blocking is durable inside a
// synctest bubble. Its mutex is deliberately visible to the race detector:
// a byte written and later read is real causality.
type SimPipe struct {
	w        *World
	id       int
	mu       sync.Mutex
	cond     *sync.Cond
	buf      []byte
	cap      int
	rClosed  bool
	wClosed  bool
	deadline time.Time
	timer    *time.Timer
}

//go:norace
func (w *World) newPipeID(p *SimPipe) int {
	raceDisable()
	w.imu.Lock()
	id := w.npipes
	if id < len(w.pipesAll) {
		w.pipesAll[id] = p
	}
	w.npipes++
	w.imu.Unlock()
	raceEnable()
	return id
}

func (w *World) NewPipe() (*pipeEnd, *pipeEnd) {
	p := &SimPipe{w: w, cap: w.pipeCap}
	p.cond = sync.NewCond(&p.mu)
	p.id = w.newPipeID(p)
	name := "p" + itoa(p.id)
	return &pipeEnd{p: p, read: true, name: name}, &pipeEnd{p: p, name: name}
}

// pipeEnd is one end of a SimPipe; it implements interp.VerifFile.
type pipeEnd struct {
	p      *SimPipe
	read   bool
	name   string
	closed bool
}

var errClosedPipe = errors.New("verif: simulated pipe end already closed")
var errDead = errors.New("verif: simulated world shut down")

func (e *pipeEnd) Read(b []byte) (int, error) {
	p := e.p
	p.w.S.Yield(e.name + ".read")
	if !e.read {
		return 0, errors.New("verif: read from write end")
	}
	if len(b) == 0 {
		return 0, nil
	}
	short := false
	if _, ok := p.w.faultAt(fkPipeRead, "|short-read|"); ok {
		short = true
	}
	p.mu.Lock()
	for {
		if e.closed {
			p.mu.Unlock()
			return 0, os.ErrClosed
		}
		// as with a real os.File, an expired deadline fails the read even
		// when data is waiting (poll.FD checks it before reading)
		if !p.deadline.IsZero() && !time.Now().Before(p.deadline) {
			p.mu.Unlock()
			p.w.probe(pDeadlineWake)
			return 0, os.ErrDeadlineExceeded
		}
		if len(p.buf) > 0 {
			n := copy(b, p.buf)
			if short && n > 1 {
				n = 1
				p.w.probe(pShortRead)
			}
			p.buf = p.buf[:copy(p.buf, p.buf[n:])]
			p.cond.Broadcast()
			p.mu.Unlock()
			return n, nil
		}
		if p.wClosed {
			p.mu.Unlock()
			return 0, io.EOF
		}
		if p.w.isDead() {
			p.mu.Unlock()
			return 0, errDead
		}
		p.w.probe(pBlockedRead)
		p.cond.Wait()
		p.mu.Unlock()
		p.w.S.Yield(e.name + ".read-woken")
		p.mu.Lock()
	}
}

func (e *pipeEnd) Write(b []byte) (int, error) {
	p := e.p
	p.w.S.Yield(e.name + ".write")
	if e.read {
		return 0, errors.New("verif: write to read end")
	}
	written := 0
	p.mu.Lock()
	for {
		if e.closed {
			p.mu.Unlock()
			return written, os.ErrClosed
		}
		if p.rClosed {
			p.mu.Unlock()
			p.w.probe(pEPIPE)
			return written, syscall.EPIPE
		}
		if p.w.isDead() {
			p.mu.Unlock()
			return written, errDead
		}
		if space := p.cap - len(p.buf); space > 0 {
			n := min(space, len(b)-written)
			p.buf = append(p.buf, b[written:written+n]...)
			written += n
			p.cond.Broadcast()
			if written == len(b) {
				p.mu.Unlock()
				return written, nil
			}
			p.mu.Unlock()
			p.w.S.Yield(e.name + ".write-more")
			p.mu.Lock()
			continue
		}
		p.w.probe(pBlockedWrite)
		p.cond.Wait()
		p.mu.Unlock()
		p.w.S.Yield(e.name + ".write-woken")
		p.mu.Lock()
	}
}

func (e *pipeEnd) Close() error {
	p := e.p
	p.w.S.Yield(e.name + ".close")
	p.mu.Lock()
	if e.closed {
		p.mu.Unlock()
		return os.ErrClosed
	}
	e.closed = true
	if e.read {
		p.rClosed = true
	} else {
		p.wClosed = true
	}
	p.cond.Broadcast()
	p.mu.Unlock()
	return nil
}

func (e *pipeEnd) SetReadDeadline(t time.Time) error {
	p := e.p
	p.w.S.Yield(e.name + ".deadline")
	p.mu.Lock()
	p.deadline = t
	if p.timer != nil {
		p.timer.Stop()
		p.timer = nil
	}
	if !t.IsZero() {
		if d := time.Until(t); d > 0 {
			p.timer = time.AfterFunc(d, func() {
				p.mu.Lock()
				p.cond.Broadcast()
				p.mu.Unlock()
			})
		}
	}
	p.cond.Broadcast()
	p.mu.Unlock()
	return nil
}

// wakeAll is used at shutdown so that nothing stays blocked on a pipe.
func (p *SimPipe) wakeAll() {
	p.mu.Lock()
	p.cond.Broadcast()
	p.mu.Unlock()
}

// stdinWrap adapts an arbitrary reader (a file opened through the open
// handler for "< file") into the runner's stdin.
type stdinWrap struct {
	w *World
	r io.Reader
}

func (s *stdinWrap) Read(b []byte) (int, error) {
	return s.r.Read(b)
}
func (s *stdinWrap) Write(b []byte) (int, error) { return 0, errors.New("verif: stdin is read-only") }
func (s *stdinWrap) Close() error {
	if c, ok := s.r.(io.Closer); ok {
		return c.Close()
	}
	return nil
}
func (s *stdinWrap) SetReadDeadline(t time.Time) error { return nil }

// ------------------------------------------------------------------ FIFOs

type fifoEntry struct {
	path    string
	rd, wr  *pipeEnd
	rOpen   bool
	wOpen   bool
	waiters chan struct{} // closed and replaced whenever the state changes
}

//go:norace
func (w *World) Mkfifo(path string) error {
	w.S.Yield("mkfifo")
	if _, ok := w.faultAt(fkMkfifo, "|mkfifo-fail|"); ok {
		return &os.PathError{Op: "mkfifo", Path: path, Err: syscall.EACCES}
	}
	rd, wr := w.NewPipe()
	raceDisable()
	w.imu.Lock()
	var err error
	for i := 0; i < w.nfifos; i++ {
		if w.fifos[i].path == path {
			err = &os.PathError{Op: "mkfifo", Path: path, Err: syscall.EEXIST}
		}
	}
	if err == nil {
		if w.nfifos == len(w.fifos) {
			err = &os.PathError{Op: "mkfifo", Path: path, Err: syscall.ENOSPC}
		} else {
			w.fifos[w.nfifos] = fifoEntry{path: path, rd: rd, wr: wr, waiters: make(chan struct{})}
			w.nfifos++
		}
	}
	w.imu.Unlock()
	raceEnable()
	return err
}

// fifoOpenStep registers this side as open and reports whether the peer is
// open too; otherwise it returns the channel to wait on.
//
//go:norace
func (w *World) fifoOpenStep(path string, write, first bool) (end *pipeEnd, wait chan struct{}, found bool) {
	raceDisable()
	w.imu.Lock()
	for i := 0; i < w.nfifos; i++ {
		f := &w.fifos[i]
		if f.path != path {
			continue
		}
		found = true
		if first {
			if write {
				f.wOpen = true
			} else {
				f.rOpen = true
			}
			close(f.waiters)
			f.waiters = make(chan struct{})
		}
		if f.rOpen && f.wOpen {
			if write {
				end = f.wr
			} else {
				end = f.rd
			}
		} else {
			wait = f.waiters
		}
		break
	}
	w.imu.Unlock()
	raceEnable()
	return
}

// OpenFifo implements the POSIX rendezvous: opening one side blocks until the
// other side is opened too.
func (w *World) OpenFifo(path string, flag int) (interp.VerifFile, error) {
	write := flag&(os.O_WRONLY|os.O_RDWR) != 0
	w.S.Yield("fifo.open")
	if _, ok := w.faultAt(fkFifoOpen, "|fifo-open-fail|"); ok {
		return nil, &os.PathError{Op: "open", Path: path, Err: syscall.EACCES}
	}
	first := true
	for {
		end, wait, found := w.fifoOpenStep(path, write, first)
		first = false
		if !found {
			return nil, &os.PathError{Op: "open", Path: path, Err: syscall.ENOENT}
		}
		if end != nil {
			return end, nil
		}
		if w.isDead() {
			return nil, errDead
		}
		w.probe(pBlockedFifoOpen)
		w.waitChan(wait)
		w.S.Yield("fifo.open-woken")
	}
}

//go:norace
func (w *World) waitChan(c chan struct{}) {
	raceDisable()
	<-c
	raceEnable()
}

//go:norace
func (w *World) isFifo(path string) bool {
	raceDisable()
	w.imu.Lock()
	ok := false
	for i := 0; i < w.nfifos; i++ {
		if w.fifos[i].path == path {
			ok = true
		}
	}
	w.imu.Unlock()
	raceEnable()
	return ok
}

// wakeFifos releases goroutines blocked in OpenFifo at shutdown.
//
//go:norace
func (w *World) wakeFifos() {
	raceDisable()
	w.imu.Lock()
	for i := 0; i < w.nfifos; i++ {
		close(w.fifos[i].waiters)
		w.fifos[i].waiters = make(chan struct{})
	}
	w.imu.Unlock()
	raceEnable()
}

// ------------------------------------------------------------------ files

type fileEntry struct {
	path  string
	isDir bool
	mu    sync.Mutex // visible: content read after write is causality
	data  []byte
	gone  bool
}

//go:norace
func (w *World) lookupFile(path string) *fileEntry {
	raceDisable()
	w.imu.Lock()
	var f *fileEntry
	for i := 0; i < w.nfiles; i++ {
		if w.files[i].path == path && !w.files[i].gone {
			f = &w.files[i]
		}
	}
	w.imu.Unlock()
	raceEnable()
	return f
}

//go:norace
func (w *World) createFile(path string, isDir bool, data string) *fileEntry {
	raceDisable()
	w.imu.Lock()
	var f *fileEntry
	for i := 0; i < w.nfiles; i++ {
		if w.files[i].path == path && !w.files[i].gone {
			f = &w.files[i]
		}
	}
	if f == nil && w.nfiles < len(w.files) {
		f = &w.files[w.nfiles]
		f.path, f.isDir = path, isDir
		f.data = []byte(data)
		w.nfiles++
	}
	w.imu.Unlock()
	raceEnable()
	return f
}

//go:norace
func (w *World) listDir(dir string) []string {
	raceDisable()
	w.imu.Lock()
	var names []string
	prefix := strings.TrimSuffix(dir, "/") + "/"
	for i := 0; i < w.nfiles; i++ {
		p := w.files[i].path
		if w.files[i].gone || !strings.HasPrefix(p, prefix) {
			continue
		}
		rest := p[len(prefix):]
		if rest == "" || strings.Contains(rest, "/") {
			continue
		}
		names = append(names, rest)
	}
	w.imu.Unlock()
	raceEnable()
	sort.Strings(names)
	return names
}

type simFileInfo struct {
	name  string
	size  int64
	isDir bool
}

func (i simFileInfo) Name() string { return i.name }
func (i simFileInfo) Size() int64  { return i.size }
func (i simFileInfo) Mode() fs.FileMode {
	if i.isDir {
		return fs.ModeDir | 0o755
	}
	return 0o644
}
func (i simFileInfo) ModTime() time.Time         { return time.Time{} }
func (i simFileInfo) IsDir() bool                { return i.isDir }
func (i simFileInfo) Sys() any                   { return nil }
func (i simFileInfo) Type() fs.FileMode          { return i.Mode().Type() }
func (i simFileInfo) Info() (fs.FileInfo, error) { return i, nil }

func baseName(p string) string {
	if i := strings.LastIndexByte(p, '/'); i >= 0 {
		return p[i+1:]
	}
	return p
}

type openFile struct {
	w      *World
	f      *fileEntry
	off    int
	write  bool
	append bool
}

func (o *openFile) Read(b []byte) (int, error) {
	o.w.S.Yield("file.read")
	o.f.mu.Lock()
	defer o.f.mu.Unlock()
	if o.off >= len(o.f.data) {
		return 0, io.EOF
	}
	n := copy(b, o.f.data[o.off:])
	o.off += n
	return n, nil
}

func (o *openFile) Write(b []byte) (int, error) {
	o.w.S.Yield("file.write")
	if !o.write {
		return 0, errors.New("verif: file not opened for writing")
	}
	o.f.mu.Lock()
	defer o.f.mu.Unlock()
	if o.append {
		o.off = len(o.f.data)
	}
	if o.off > len(o.f.data) {
		o.off = len(o.f.data)
	}
	o.f.data = append(o.f.data[:o.off], b...)
	o.off += len(b)
	return len(b), nil
}

func (o *openFile) Close() error { return nil }

var errFatalOpen = errors.New("verif: injected fatal open handler error")
var errFatalExec = errors.New("verif: injected fatal exec handler error")

func (w *World) OpenHandler(ctx context.Context, path string, flag int, perm os.FileMode) (io.ReadWriteCloser, error) {
	w.S.Yield("fs.open")
	if path == "/dev/null" {
		return devNull{}, nil
	}
	if path == "/dev/zero" {
		return &endless{w: w, unit: "\x00"}, nil
	}
	if path == "/dev/yes" {
		return &endless{w: w, unit: "y\n"}, nil
	}
	if f, ok := w.faultAt(fkOpen, "|open-enoent|open-eacces|open-enospc|open-fatal|"); ok {
		switch f.Kind {
		case "open-enoent":
			return nil, &os.PathError{Op: "open", Path: path, Err: syscall.ENOENT}
		case "open-eacces":
			return nil, &os.PathError{Op: "open", Path: path, Err: syscall.EACCES}
		case "open-enospc":
			return nil, &os.PathError{Op: "open", Path: path, Err: syscall.ENOSPC}
		default:
			return nil, errFatalOpen
		}
	}
	fe := w.lookupFile(path)
	if fe != nil && fe.isDir {
		return nil, &os.PathError{Op: "open", Path: path, Err: syscall.EISDIR}
	}
	if fe == nil {
		if flag&os.O_CREATE == 0 {
			return nil, &os.PathError{Op: "open", Path: path, Err: syscall.ENOENT}
		}
		dir := path[:max(strings.LastIndexByte(path, '/'), 0)]
		if d := w.lookupFile(dir); dir != "" && (d == nil || !d.isDir) {
			return nil, &os.PathError{Op: "open", Path: path, Err: syscall.ENOENT}
		}
		fe = w.createFile(path, false, "")
		if fe == nil {
			return nil, &os.PathError{Op: "open", Path: path, Err: syscall.ENOSPC}
		}
	}
	of := &openFile{w: w, f: fe, write: flag&(os.O_WRONLY|os.O_RDWR) != 0, append: flag&os.O_APPEND != 0}
	if flag&os.O_TRUNC != 0 {
		fe.mu.Lock()
		fe.data = fe.data[:0]
		fe.mu.Unlock()
	}
	return of, nil
}

// killedReader makes a simulated command stop reading once its context is
// cancelled, whatever it reads from: a real child process would have been
// killed by DefaultExecHandler.
type killedReader struct {
	ctx context.Context
	r   io.Reader
}

func (k killedReader) Read(b []byte) (int, error) {
	if err := k.ctx.Err(); err != nil {
		return 0, err
	}
	return k.r.Read(b)
}

// endless is a device that always has more data and knows no deadlines
// (like /dev/zero, or a regular file that another process keeps appending
// to): a read from it never blocks, so only the interpreter's own context
// checks can end a loop around it.
type endless struct {
	w    *World
	unit string
	pos  int
}

func (e *endless) Read(b []byte) (int, error) {
	e.w.S.Yield("endless.read")
	if e.w.isDead() {
		return 0, errDead
	}
	n := 0
	for n < len(b) && n < 64 {
		b[n] = e.unit[e.pos%len(e.unit)]
		e.pos++
		n++
	}
	return n, nil
}
func (e *endless) Write(b []byte) (int, error) { return len(b), nil }
func (e *endless) Close() error                { return nil }

type devNull struct{}

func (devNull) Read(b []byte) (int, error)  { return 0, io.EOF }
func (devNull) Write(b []byte) (int, error) { return len(b), nil }
func (devNull) Close() error                { return nil }

func (w *World) StatHandler(ctx context.Context, name string, followSymlinks bool) (fs.FileInfo, error) {
	w.S.Yield("fs.stat")
	fe := w.lookupFile(strings.TrimSuffix(name, "/"))
	if name == "/" {
		return simFileInfo{name: "/", isDir: true}, nil
	}
	if fe == nil {
		return nil, &os.PathError{Op: "stat", Path: name, Err: syscall.ENOENT}
	}
	fe.mu.Lock()
	n := len(fe.data)
	fe.mu.Unlock()
	return simFileInfo{name: baseName(fe.path), size: int64(n), isDir: fe.isDir}, nil
}

func (w *World) AccessHandler(ctx context.Context, path string, mode interp.AccessMode) error {
	w.S.Yield("fs.access")
	if path == "/" || w.lookupFile(strings.TrimSuffix(path, "/")) != nil {
		return nil
	}
	return &os.PathError{Op: "access", Path: path, Err: syscall.ENOENT}
}

func (w *World) ReadDirHandler(ctx context.Context, path string) ([]fs.DirEntry, error) {
	w.S.Yield("fs.readdir")
	if fe := w.lookupFile(strings.TrimSuffix(path, "/")); path != "/" && (fe == nil || !fe.isDir) {
		return nil, &os.PathError{Op: "readdir", Path: path, Err: syscall.ENOENT}
	}
	var out []fs.DirEntry
	for _, n := range w.listDir(path) {
		fe := w.lookupFile(strings.TrimSuffix(path, "/") + "/" + n)
		if fe != nil {
			out = append(out, simFileInfo{name: n, isDir: fe.isDir})
		}
	}
	return out, nil
}

// ------------------------------------------------------------------ commands

// ExecHandler provides the simulated external commands. Durations are in
// fake-clock time; nothing here starts a real process.
func (w *World) ExecHandler(ctx context.Context, args []string) error {
	hc := interp.HandlerCtx(ctx)
	w.S.Yield("exec." + args[0])
	if f, ok := w.faultAt(fkExec, "|exec-fatal|exec-fail|"); ok {
		if f.Kind == "exec-fatal" {
			return errFatalExec
		}
		return interp.ExitStatus(uint8(70 + f.Arg%50))
	}
	dur := func(i int) time.Duration {
		if len(args) <= i {
			return time.Second
		}
		f, err := strconv.ParseFloat(args[i], 64)
		if err != nil {
			return time.Second
		}
		return time.Duration(f * float64(time.Second))
	}
	switch args[0] {
	case "sleep", "snooze":
		select {
		case <-time.After(dur(1)):
			w.S.Yield("exec.sleep-woken")
			return nil
		case <-ctx.Done():
			w.probe(pSleepCancelled)
			w.S.Yield("exec.sleep-cancelled")
			return ctx.Err() // like a process killed by the context
		}
	case "stubborn": // ignores cancellation for its whole duration
		<-time.After(dur(1))
		if ctx.Err() != nil {
			w.probe(pStubbornIgnoredCancel)
		}
		w.S.Yield("exec.stubborn-woken")
		return nil
	case "cat":
		if len(args) > 1 {
			for _, a := range args[1:] {
				var rd io.ReadCloser
				var err error
				if w.isFifo(a) {
					rd, err = w.OpenFifo(a, os.O_RDONLY)
				} else {
					rd, err = w.OpenHandler(ctx, absJoin(hc.Dir, a), os.O_RDONLY, 0)
				}
				if err != nil {
					fmt.Fprintf(hc.Stderr, "cat: %v\n", err)
					return interp.ExitStatus(1)
				}
				_, err = io.Copy(hc.Stdout, killedReader{ctx, rd})
				rd.Close()
				if err != nil {
					return interp.ExitStatus(1)
				}
			}
			return nil
		}
		if hc.Stdin == nil {
			return nil
		}
		done := killable(ctx, hc.Stdin)
		_, err := io.Copy(hc.Stdout, killedReader{ctx, hc.Stdin})
		done()
		if ctx.Err() != nil {
			return ctx.Err() // killed
		}
		if err != nil {
			return interp.ExitStatus(1)
		}
		return nil
	case "emit": // emit N [text]: writes N lines
		n := 1
		if len(args) > 1 {
			n, _ = strconv.Atoi(args[1])
		}
		text := "line"
		if len(args) > 2 {
			text = args[2]
		}
		for i := 0; i < n; i++ {
			if _, err := fmt.Fprintf(hc.Stdout, "%s%d\n", text, i); err != nil {
				return interp.ExitStatus(1)
			}
			if ctx.Err() != nil {
				return ctx.Err()
			}
		}
		return nil
	case "yes": // endless writer, stops on EPIPE or cancellation
		for {
			if _, err := io.WriteString(hc.Stdout, "y\n"); err != nil {
				return interp.ExitStatus(1)
			}
			if ctx.Err() != nil {
				return ctx.Err()
			}
		}
	case "drain": // reads stdin to EOF, prints the byte count
		n := 0
		if hc.Stdin != nil {
			done := killable(ctx, hc.Stdin)
			var buf [64]byte
			in := killedReader{ctx, hc.Stdin}
			for {
				k, err := in.Read(buf[:])
				n += k
				if err != nil {
					break
				}
			}
			done()
			if ctx.Err() != nil {
				return ctx.Err() // killed
			}
		}
		fmt.Fprintf(hc.Stdout, "%d\n", n)
		return nil
	case "head1": // reads one line and stops (closes nothing itself)
		if hc.Stdin != nil {
			done := killable(ctx, hc.Stdin)
			defer done()
			var b [1]byte
			in := killedReader{ctx, hc.Stdin}
			for {
				k, err := in.Read(b[:])
				if k > 0 {
					hc.Stdout.Write(b[:1])
					if b[0] == '\n' {
						break
					}
				}
				if err != nil {
					break
				}
			}
		}
		return nil
	case "fail":
		code := 1
		if len(args) > 1 {
			code, _ = strconv.Atoi(args[1])
		}
		return interp.ExitStatus(uint8(code))
	case "fatal":
		return errFatalExec
	case "towrite": // towrite PATH TEXT: opens PATH (FIFO aware) and writes
		if len(args) < 3 {
			return interp.ExitStatus(2)
		}
		var wr io.WriteCloser
		var err error
		if w.isFifo(args[1]) {
			wr, err = w.OpenFifo(args[1], os.O_WRONLY)
		} else {
			wr, err = w.OpenHandler(ctx, absJoin(hc.Dir, args[1]), os.O_WRONLY|os.O_CREATE|os.O_TRUNC, 0o644)
		}
		if err != nil {
			fmt.Fprintf(hc.Stderr, "towrite: %v\n", err)
			return interp.ExitStatus(1)
		}
		io.WriteString(wr, args[2]+"\n")
		wr.Close()
		return nil
	}
	fmt.Fprintf(hc.Stderr, "%s: simulated command not found\n", args[0])
	return interp.ExitStatus(127)
}

// killable models what happens to a real external process blocked on its
// stdin when the context is cancelled: DefaultExecHandler kills it, so the
// blocked read ends. The simulated command gets the same effect through a
// read deadline on its stdin, which is reset afterwards.
func killable(ctx context.Context, stdin io.Reader) (done func()) {
	dl, ok := stdin.(interface{ SetReadDeadline(time.Time) error })
	if !ok || stdin == nil {
		return func() {}
	}
	stopc := make(chan struct{})
	var tok uint64
	if simWorld != nil {
		tok = simWorld.S.Spawn()
	}
	stop := context.AfterFunc(ctx, func() {
		if simWorld != nil {
			simWorld.S.Start(tok)
			defer simWorld.S.End()
		}
		dl.SetReadDeadline(time.Now())
		close(stopc)
	})
	return func() {
		if !stop() {
			<-stopc
			dl.SetReadDeadline(time.Time{})
		} else if simWorld != nil {
			simWorld.S.Drop(tok)
		}
	}
}

func absJoin(dir, p string) string {
	if strings.HasPrefix(p, "/") {
		return p
	}
	return strings.TrimSuffix(dir, "/") + "/" + p
}

// shutdown makes every simulated operation fail fast and wakes whatever is
// blocked on a simulated object.
//
//go:norace
func (w *World) shutdown() {
	raceDisable()
	w.imu.Lock()
	w.dead = true
	n := w.npipes
	w.imu.Unlock()
	raceEnable()
	for i := 0; i < n && i < len(w.pipesAll); i++ {
		if p := w.pipesAll[i]; p != nil {
			p.wakeAll()
		}
	}
	w.wakeFifos()
}

// Hooks returns the table installed as interp.VerifSim.
func (w *World) Hooks() *interp.VerifHooks {
	return &interp.VerifHooks{
		Yield: w.S.Yield,
		Spawn: w.S.Spawn,
		Drop:  w.S.Drop,
		Start: w.S.Start,
		End:   w.S.End,
		NewPipe: func() (interp.VerifFile, io.WriteCloser, error) {
			w.S.Yield("pipe.new")
			r, wr := w.NewPipe()
			return r, wr, nil
		},
		WrapStdin: func(r io.Reader) (interp.VerifFile, error) {
			if vf, ok := r.(interp.VerifFile); ok {
				return vf, nil
			}
			return &stdinWrap{w: w, r: r}, nil
		},
		Mkfifo:   w.Mkfifo,
		OpenFifo: w.OpenFifo,
	}
}
