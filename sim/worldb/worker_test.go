package worldb

import (
	"bufio"
	"encoding/json"
	"fmt"
	"os"
	"strings"
	"testing"
)

// TestWorker is the entry point of a World-B worker process. Violations are
// accounted for in the result file, never through t.Fatal.
func TestWorker(t *testing.T) {
	path := os.Getenv("VERIF_B_JOB")
	if path == "" {
		t.Skip("no VERIF_B_JOB")
	}
	b, err := os.ReadFile(path)
	if err != nil {
		t.Fatal(err)
	}
	var job Job
	if err := json.Unmarshal(b, &job); err != nil {
		t.Fatal(err)
	}
	out, err := os.Create(job.Out)
	if err != nil {
		t.Fatal(err)
	}
	defer out.Close()
	w := bufio.NewWriter(out)
	enc := json.NewEncoder(w)
	enc.SetEscapeHTML(false)

	racePath := fmt.Sprintf("%s.%d", job.RaceLog, os.Getpid())
	var raceOff int64
	raceLog := func() string {
		data, err := os.ReadFile(racePath)
		if err != nil || int64(len(data)) <= raceOff {
			return ""
		}
		s := string(data[raceOff:])
		raceOff = int64(len(data))
		return s
	}

	run := func(c *Case) {
		// descriptor of the case about to run, so that a crashed worker
		// (fatal error: concurrent map writes, runtime throw) leaves a replay
		cur, _ := json.Marshal(c)
		os.WriteFile(job.Out+".cur", cur, 0o644)
		v := Evaluate(t, c, raceLog)
		raceLog() // drop reports that belong to this case but were not asked for
		enc.Encode(v)
		w.Flush()
	}
	for _, c := range job.Cases {
		run(c)
	}
	for _, idx := range job.Indexes {
		run(GenCase(job.Property, job.Root, idx, job.Tier))
	}
	os.Remove(job.Out + ".cur")
	fmt.Fprintln(w, `{"worker_done":true}`)
	w.Flush()
}

var _ = strings.TrimSpace
