package worldb

// Job is what the driver hands to one worker process (env VERIF_B_JOB).
type Job struct {
	Property string  `json:"property"`
	Tier     string  `json:"tier"`
	Root     uint64  `json:"root"`
	Indexes  []int   `json:"indexes,omitempty"` // case indexes to generate and run
	Cases    []*Case `json:"cases,omitempty"`   // explicit cases (replay, minimisation)
	Out      string  `json:"out"`
	RaceLog  string  `json:"race_log"` // GORACE log_path prefix
}

