package worldb

// Job is what the driver hands to one worker process (env VERIF_B_JOB).
type Job struct {
	Property string  `json:"property"`
	Tier     string  `json:"tier"`
	Root     uint64  `json:"root"`
	Indexes  []int   `json:"indexes,omitempty"` // case indexes to generate and run
	Cases    []*Case `json:"cases,omitempty"`   // explicit cases (replay, minimisation)
	Out      string  `json:"out"`
	RaceLog  string  `json:"race_log"` // GORACE log_path prefix
}


// ProbeResult is one case of the (non-simulated) real-process probe of C31.
type ProbeResult struct {
	Name     string  `json:"name"`
	Program  string  `json:"program"`
	OK       bool    `json:"ok"`
	Class    string  `json:"class,omitempty"`
	Detail   string  `json:"detail,omitempty"`
	Seconds  float64 `json:"seconds"`
	Err      string  `json:"err"`
	Attempts int     `json:"attempts"`
}
