package worldb

import (
	"fmt"
	"os"
	"sort"
	"strconv"
	"strings"
	"testing"

	"verifsim/kit"
)

// TestSysGen is a development aid (VERIF_B_SYSGEN=<n>): it draws n composed
// statements per mode, checks that each one parses, runs each one alone
// after a generated setup and tallies the ones that panic the interpreter or
// never return, so that such shapes can be kept out of the generators (a
// sequential panic is outside the claimed properties).
func TestSysGen(t *testing.T) {
	n, _ := strconv.Atoi(os.Getenv("VERIF_B_SYSGEN"))
	if n == 0 {
		t.Skip("set VERIF_B_SYSGEN=<n>")
	}
	bad := map[string]int{}
	example := map[string]string{}
	note := func(kind, stmt string) {
		bad[kind]++
		if _, ok := example[kind]; !ok || len(stmt) < len(example[kind]) {
			example[kind] = stmt
		}
	}
	for mode := 0; mode < 3; mode++ {
		r := kit.NewRand(uint64(1000 + mode))
		for i := 0; i < n; i++ {
			inFunc, env := mode == 1, mode == 2
			g := &sysGen{r: r.Fork(fmt.Sprint(i)), inFunc: inFunc, env: env}
			if os.Getenv("VERIF_B_SYSGEN_NOWRAP") != "" {
				g.depth = 9
			}
			st := g.Stmt()
			if _, err := parseProg(st, ""); err != nil {
				note("parse:"+err.Error(), st)
				continue
			}
			lines := append(genSetup(r.Fork("s"+fmt.Sprint(i)), inFunc), st, "echo survived")
			if inFunc {
				lines = wrapInFunc(lines)
			}
			prog := joinProg(lines)
			spec := &RunSpec{Programs: []string{prog}, Strategy: Strategy{Kind: "sequential"}, CancelStep: -1, PipeCap: 64, StdoutFail: -1, FaultProg: -1, CancelProg: -1, Stdin: "closed", Files: simDirs, EnvArrays: env, MaxSteps: 4000}
			res := Execute(t, spec)
			switch {
			case res.HarnessErr != "":
				note("harness:"+kit.Clip(res.HarnessErr, 80), st)
			case res.Panic != "":
				note("panic:"+kit.Clip(res.Panic, 100), st)
			case !res.Returned:
				note("no-return:"+kit.Clip(res.Hang, 60), st)
			}
		}
	}
	var keys []string
	for k := range bad {
		keys = append(keys, k)
	}
	sort.Strings(keys)
	for _, k := range keys {
		fmt.Printf("%5d  %s\n         e.g. %s\n", bad[k], k, strings.ReplaceAll(example[k], "\n", "\\n"))
	}
	fmt.Printf("sysgen: %d statements per mode, %d kinds of trouble\n", n, len(keys))
}
