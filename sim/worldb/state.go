package worldb

import (
	"fmt"
	"regexp"
	"sort"
	"strings"
	"sync/atomic"

	"mvdan.cc/sh/v3/expand"
	"mvdan.cc/sh/v3/syntax"
	"mvdan.cc/sh/v3/syntax/typedjson"
)

// varString is a deep textual form of a variable: kind, attributes and every
// element, so that aliasing of backing storage shows up as a changed value.
func varString(v expand.Variable) string {
	var sb strings.Builder
	fmt.Fprintf(&sb, "set=%v local=%v exported=%v readonly=%v kind=%v", v.Set, v.Local, v.Exported, v.ReadOnly, v.Kind)
	switch v.Kind {
	case expand.Indexed:
		fmt.Fprintf(&sb, " list=%q indexes=%v", v.List, v.Indexes)
	case expand.Associative:
		keys := make([]string, 0, len(v.Map))
		for k := range v.Map {
			keys = append(keys, k)
		}
		sort.Strings(keys)
		sb.WriteString(" map={")
		for _, k := range keys {
			fmt.Fprintf(&sb, "%q:%q ", k, v.Map[k])
		}
		sb.WriteString("}")
	default:
		fmt.Fprintf(&sb, " str=%q", v.Str)
	}
	return sb.String()
}

// volatileVars never take part in state comparisons.
var volatileVars = map[string]bool{"_": true, "RANDOM": true, "SRANDOM": true, "SECONDS": true, "LINENO": true, "BASHPID": true, "PPID": true, "EPOCHSECONDS": true, "EPOCHREALTIME": true}

func dumpVars(m map[string]expand.Variable) map[string]string {
	out := map[string]string{}
	for k, v := range m {
		if volatileVars[k] {
			continue
		}
		out[k] = varString(v)
	}
	return out
}

func dumpFuncs(m map[string]*syntax.Stmt) map[string]string {
	out := map[string]string{}
	pr := syntax.NewPrinter()
	for k, v := range m {
		var sb strings.Builder
		pr.Print(&sb, v)
		out[k] = sb.String()
	}
	return out
}

func dumpTree(f *syntax.File) string {
	var sb strings.Builder
	if err := typedjson.Encode(&sb, f); err != nil {
		return "typedjson error: " + err.Error()
	}
	return sb.String()
}

func printTree(f *syntax.File) string {
	var sb strings.Builder
	if err := syntax.NewPrinter().Print(&sb, f); err != nil {
		return "print error: " + err.Error()
	}
	return sb.String()
}

func mapDiff(a, b map[string]string) string {
	var keys []string
	seen := map[string]bool{}
	for k := range a {
		keys, seen[k] = append(keys, k), true
	}
	for k := range b {
		if !seen[k] {
			keys = append(keys, k)
		}
	}
	sort.Strings(keys)
	var sb strings.Builder
	for _, k := range keys {
		x, okx := a[k]
		y, oky := b[k]
		// process-substitution FIFO paths are random
		x, y = fifoNameRE.ReplaceAllString(x, "sh-interp-FIFO"), fifoNameRE.ReplaceAllString(y, "sh-interp-FIFO")
		switch {
		case !okx:
			fmt.Fprintf(&sb, "%s: only in observed: %s; ", k, y)
		case !oky:
			fmt.Fprintf(&sb, "%s: only in reference: %s; ", k, x)
		case x != y:
			fmt.Fprintf(&sb, "%s: reference {%s} observed {%s}; ", k, x, y)
		}
	}
	return sb.String()
}

// recordingEnviron is the Environ handed to interp.Env in C29 runs. It also
// implements WriteEnviron so that any write by the runner is seen, and it
// serves indexed and associative values whose backing storage the runner
// could alias.
type recordingEnviron struct {
	names []string
	vars  map[string]expand.Variable
	sets  atomic.Int64
}

func newRecordingEnviron(pairs []string) *recordingEnviron {
	e := &recordingEnviron{vars: map[string]expand.Variable{}}
	add := func(name string, v expand.Variable) {
		if _, ok := e.vars[name]; !ok {
			e.names = append(e.names, name)
		}
		e.vars[name] = v
	}
	for _, p := range pairs {
		name, val, _ := strings.Cut(p, "=")
		add(name, expand.Variable{Set: true, Exported: true, Kind: expand.String, Str: val})
	}
	list := make([]string, 2, 8) // spare capacity: an in-place append would land here
	list[0], list[1] = "e0", "e1"
	add("ENVARR", expand.Variable{Set: true, Kind: expand.Indexed, List: list})
	add("ENVSPARSE", expand.Variable{Set: true, Kind: expand.Indexed, List: []string{"s2", "s5"}, Indexes: []int{2, 5}})
	add("ENVMAP", expand.Variable{Set: true, Kind: expand.Associative, Map: map[string]string{"k": "v", "k2": "v2"}})
	add("ENVRO", expand.Variable{Set: true, Exported: true, ReadOnly: true, Kind: expand.String, Str: "ro"})
	add("ENVSTR", expand.Variable{Set: true, Exported: true, Kind: expand.String, Str: "envstr"})
	sort.Strings(e.names)
	return e
}

// The maps and slices are never written after construction, so concurrent
// readers need no lock (a lock would add happens-before edges between the
// interpreter's goroutines and hide races).
func (e *recordingEnviron) Get(name string) expand.Variable { return e.vars[name] }

func (e *recordingEnviron) Each(f func(name string, vr expand.Variable) bool) {
	for _, n := range e.names {
		if !f(n, e.vars[n]) {
			return
		}
	}
}

func (e *recordingEnviron) Set(name string, vr expand.Variable) error {
	e.sets.Add(1)
	return nil // record, do not apply: the before/after dump stays meaningful
}

func (e *recordingEnviron) writes() int { return int(e.sets.Load()) }

func (e *recordingEnviron) dump() string {
	var sb strings.Builder
	for _, n := range e.names {
		v := e.vars[n]
		// look at the spare capacity too: an append in place writes there
		if v.Kind == expand.Indexed {
			full := v.List[:cap(v.List)]
			fmt.Fprintf(&sb, "%s: %s backing=%q\n", n, varString(v), full)
			continue
		}
		fmt.Fprintf(&sb, "%s: %s\n", n, varString(v))
	}
	return sb.String()
}

var fifoNameRE = regexp.MustCompile(`sh-interp-[0-9a-f]+`)

// canonOutput removes the effect of Go map iteration order from shell
// output: the elements of "declare -A" lines and runs of "alias" lines are
// sorted (associative arrays and the alias table are compared as sets).
func canonOutput(out string) string {
	out = fifoNameRE.ReplaceAllString(out, "sh-interp-FIFO")
	lines := strings.Split(out, "\n")
	for i, l := range lines {
		if strings.HasPrefix(l, "declare -A") || (strings.HasPrefix(l, "declare -") && strings.Contains(strings.SplitN(l, " ", 3)[1], "A")) {
			open := strings.Index(l, "=(")
			if open < 0 || !strings.HasSuffix(l, ")") {
				continue
			}
			inner := l[open+2 : len(l)-1]
			var elems []string
			for {
				j := strings.Index(inner, "\" [")
				if j < 0 {
					break
				}
				elems = append(elems, inner[:j+1])
				inner = inner[j+2:]
			}
			if inner != "" {
				elems = append(elems, inner)
			}
			sort.Strings(elems)
			lines[i] = l[:open+2] + strings.Join(elems, " ") + ")"
		}
	}
	for i := 0; i < len(lines); {
		j := i
		for j < len(lines) && strings.HasPrefix(lines[j], "alias ") {
			j++
		}
		if j > i+1 {
			sort.Strings(lines[i:j])
		}
		i = max(j, i+1)
	}
	return strings.Join(lines, "\n")
}
