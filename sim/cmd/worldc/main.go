// worldc is the crash-point simulator (World C of DESIGN.md) for C35: the
// real shfmt binary, built from /repo's working tree, formats generated
// files with -w under strace; for EVERY file-system system call of the
// fault-free run the scenario is restored and re-run with that call turned
// into "the process is killed before the call executes", and the state of
// the directory is judged afterwards.
package main

import (
	"bytes"
	"encoding/base64"
	"encoding/json"
	"fmt"
	"os"
	"os/exec"
	"path/filepath"
	"regexp"
	"runtime"
	"sort"
	"strconv"
	"strings"
	"sync"
	"syscall"
	"time"

	"verifsim/kit"
)

const traceSet = "openat,read,pread64,write,pwrite64,close,fstat,newfstatat,fchmod,fchmodat,fchown,fsync,fdatasync,rename,renameat,renameat2,unlink,unlinkat,getdents64,readlinkat,fcntl,linkat,symlinkat,ftruncate,mkdirat"

var shfmtBin = filepath.Join(kit.VerifDir(), "bin", "shfmt-under-test")

// knownKeys are the violation keys listed as known findings for C35.
var knownKeys = map[string]bool{}

type Target struct {
	Name    string `json:"name"`              // relative to the work directory
	Kind    string `json:"kind"`              // regular | symlink | fifo | dir
	Content string `json:"content_b64"`       // regular files
	Mode    uint32 `json:"mode"`              // permission bits of regular files
	LinkTo  string `json:"link_to,omitempty"` // symlinks
}

type Scenario struct {
	Idx     int      `json:"idx"`
	Seed    uint64   `json:"seed"`
	Targets []Target `json:"targets"`
	Args    []string `json:"args"`  // paths handed to shfmt, relative to the work directory
	Flags   []string `json:"flags"` // always includes -w
	Umask   int      `json:"umask"`
	Tmpdir  string   `json:"tmpdir"` // same-fs | other-fs | in-work
}

// KillPoint names one system call of the reference run.
type KillPoint struct {
	Syscall   string `json:"syscall"`
	When      int    `json:"when"`   // occurrence index of that syscall on the main thread, 1-based
	Masked    string `json:"masked"` // the call with temp suffixes masked
	AfterTemp bool   `json:"after_temp_exists"`
	// Err, when set (e.g. "EIO"), makes the call fail with that error instead
	// of killing the process: the run then completes by itself.
	Err string `json:"err,omitempty"`
}

type Replay struct {
	Property string     `json:"property"`
	World    string     `json:"world"`
	Scenario Scenario   `json:"scenario"`
	Kill     *KillPoint `json:"kill,omitempty"` // nil: completed-run oracle
	Class    string     `json:"class"`
	Key      string     `json:"key"`
	Detail   string     `json:"detail"`
}

// ------------------------------------------------------------------ generation

var snippets = []string{
	"echo $((  $x + 1 ))  \"${y}\"\n",
	"if true;then\necho   hi\nfi\n",
	"foo(){\nbar   baz\n}\n",
	"for i in 1 2 3;do echo $i;done\n",
	"case $x in\na) echo a;;\nesac\n",
	"echo    'spaced   out'   >   /dev/null\n",
	"while read l;do\n  echo \"$l\"\ndone < f\n",
	"x=$(  echo   sub  )\n",
	"cat <<EOF\nhere   doc\nEOF\n",
	"a=(  1   2  3 )\n",
	"[[ -n   $x ]]   &&   echo yes\n",
	"[[ \"$a\"   == \"b\" ]] || (( $i  > 2 ))\n",
}

func genContent(r *kit.Rand, size int, formatted bool, posixOnlyContent bool) []byte {
	var sb bytes.Buffer
	snippets := snippets
	if r.Chance(1, 3) {
		sb.WriteString(kit.Pick(r, []string{"#!/bin/sh\n", "#!/bin/bash\n", "#!/usr/bin/env bash\n"}))
	}
	if posixOnlyContent || strings.HasPrefix(sb.String(), "#!/bin/sh") {
		// keep the file parseable as POSIX shell (no arrays, no [[ ]]); files
		// that do not parse are a scenario kind of their own (broken.sh)
		snippets = snippets[:9]
	}
	if formatted {
		for sb.Len() < size {
			fmt.Fprintf(&sb, "echo line%d\n", sb.Len())
		}
		return sb.Bytes()
	}
	for sb.Len() < size || sb.Len() == 0 {
		sb.WriteString(kit.Pick(r, snippets))
		if r.Chance(1, 8) {
			fmt.Fprintf(&sb, "# comment %d\n", sb.Len())
		}
	}
	b := sb.Bytes()
	if r.Chance(1, 10) {
		b = bytes.ReplaceAll(b, []byte("\n"), []byte("\r\n"))
	}
	return b
}

func genScenario(root uint64, idx int) *Scenario {
	seed := kit.RunSeed(root, "C35", idx)
	r := kit.NewRand(seed)
	sc := &Scenario{Idx: idx, Seed: seed, Flags: []string{"-w"}}
	sc.Umask = kit.Pick(r, []int{0o022, 0o077, 0o000, 0o027})
	sc.Tmpdir = kit.Pick(r, []string{"same-fs", "same-fs", "other-fs", "in-work"})
	switch r.Intn(8) {
	case 0:
		sc.Flags = append(sc.Flags, "-l")
	case 1:
		sc.Flags = append(sc.Flags, "-d")
	case 2:
		sc.Flags = append(sc.Flags, "-s")
	case 3:
		sc.Flags = append(sc.Flags, "-i", strconv.Itoa(kit.Pick(r, []int{2, 4})))
	case 4:
		sc.Flags = append(sc.Flags, "-ln", kit.Pick(r, []string{"bash", "posix", "mksh"}))
	}
	posixOnlyContent := len(sc.Flags) == 3 && sc.Flags[2] == "posix"
	modes := []uint32{0o600, 0o640, 0o644, 0o664, 0o666, 0o755, 0o775, 0o777, 0o444, 0o400, 0o700}
	sizes := []int{0, 1, 20, 200, 3000, 33000, 70000, 200000}
	nfiles := r.Range(1, 3)
	useDir := r.Chance(1, 4)
	prefix := ""
	if useDir {
		prefix = "proj/"
		sc.Targets = append(sc.Targets, Target{Name: "proj", Kind: "dir"})
	}
	for i := 0; i < nfiles; i++ {
		name := fmt.Sprintf("%sf%d.sh", prefix, i)
		size := kit.Pick(r, sizes)
		if idx%5 == 0 && i == 0 {
			size = kit.Pick(r, []int{33000, 70000, 200000}) // make sure large writes occur regularly
		}
		t := Target{Name: name, Kind: "regular", Mode: kit.Pick(r, modes)}
		t.Content = base64.StdEncoding.EncodeToString(genContent(r, size, r.Chance(1, 6), posixOnlyContent))
		sc.Targets = append(sc.Targets, t)
		if !useDir {
			sc.Args = append(sc.Args, name)
		}
	}
	// non-regular targets
	switch r.Intn(6) {
	case 0: // a symlink given explicitly
		sc.Targets = append(sc.Targets, Target{Name: prefix + "link.sh", Kind: "symlink", LinkTo: "f0.sh"})
		if !useDir {
			sc.Args = append(sc.Args, "link.sh")
		}
	case 1: // a FIFO named like a script (only ever inside a walked directory: opening it directly would block)
		if useDir {
			sc.Targets = append(sc.Targets, Target{Name: prefix + "pipe.sh", Kind: "fifo"})
		}
	case 2: // dangling symlink
		sc.Targets = append(sc.Targets, Target{Name: prefix + "dangling.sh", Kind: "symlink", LinkTo: "nowhere.sh"})
		if !useDir && r.Chance(1, 2) {
			sc.Args = append(sc.Args, "dangling.sh")
		}
	}
	// A first target whose formatted form exceeds 1 MiB, followed by at least
	// one more file (buffers reused between files, overlapped writes).
	if r3 := r.Fork("big"); (r3.Chance(1, 10) || idx%16 == 5) && !useDir {
		big := genContent(r3, 1200000+r3.Intn(500000), false, posixOnlyContent)
		sc.Targets[0].Content = base64.StdEncoding.EncodeToString(big)
		if len(sc.Args) < 2 {
			sc.Targets = append(sc.Targets, Target{Name: "after-big.sh", Kind: "regular", Mode: kit.Pick(r3, modes),
				Content: base64.StdEncoding.EncodeToString(genContent(r3, kit.Pick(r3, []int{20, 3000, 70000}), false, posixOnlyContent))})
			sc.Args = append(sc.Args, "after-big.sh")
		}
	}
	// An .editorconfig whose simplify/minify section matches the first file
	// only (options must not stick from one file to the next). shfmt only
	// consults it when no formatting flag is given.
	if r4 := r.Fork("editorconfig"); (r4.Chance(1, 8) || idx%16 == 9) && len(sc.Flags) == 1 {
		ec := "root = true\n\n[*.sh]\nindent_style = " + kit.Pick(r4, []string{"tab", "space\nindent_size = 2"}) + "\n\n[" + firstRegular(sc) + "]\n" + kit.Pick(r4, []string{"simplify = true", "minify = true", "simplify = true\nbinary_next_line = true", "space_redirects = true\nsimplify = true"}) + "\n"
		sc.Targets = append(sc.Targets, Target{Name: prefix + ".editorconfig", Kind: "regular", Mode: 0o644, Content: base64.StdEncoding.EncodeToString([]byte(ec))})
	}
	// drawn from a separate stream so that earlier scenarios stay the same
	r2 := r.Fork("extra-targets")
	switch r2.Intn(5) {
	case 0: // the first target has a second hard link (kept outside the formatted set)
		sc.Targets = append(sc.Targets, Target{Name: prefix + "hardlink-of-f0.txt", Kind: "hardlink", LinkTo: prefix + "f0.sh"})
	case 1: // a read-only directory entry next to the targets, and a target name with spaces
		sc.Targets = append(sc.Targets, Target{Name: prefix + "with space.sh", Kind: "regular", Mode: kit.Pick(r2, modes),
			Content: base64.StdEncoding.EncodeToString(genContent(r2, kit.Pick(r2, []int{20, 3000}), false, posixOnlyContent))})
		if !useDir {
			sc.Args = append(sc.Args, "with space.sh")
		}
	case 2: // a file that does not parse: shfmt reports it and must still handle the others atomically
		sc.Targets = append(sc.Targets, Target{Name: prefix + "broken.sh", Kind: "regular", Mode: 0o644,
			Content: base64.StdEncoding.EncodeToString([]byte("if true; then\necho   unterminated\n"))})
		if !useDir {
			// before or after the good files
			if r2.Chance(1, 2) {
				sc.Args = append([]string{"broken.sh"}, sc.Args...)
			} else {
				sc.Args = append(sc.Args, "broken.sh")
			}
		}
	case 3: // a name so long that no ".<name><random>" sibling can be created (ENAMETOOLONG)
		long := strings.Repeat("n", 240) + ".sh"
		sc.Targets = append(sc.Targets, Target{Name: prefix + long, Kind: "regular", Mode: kit.Pick(r2, modes),
			Content: base64.StdEncoding.EncodeToString(genContent(r2, kit.Pick(r2, []int{200, 7000}), false, posixOnlyContent))})
		if !useDir {
			sc.Args = append(sc.Args, long)
		}
	}
	if useDir {
		sc.Args = []string{"proj"}
	}
	return sc
}

// ------------------------------------------------------------------ world

type world struct {
	root, work, tmp string
}

func newWorld(sc *Scenario) (*world, error) {
	root, err := os.MkdirTemp("", "worldc-")
	if err != nil {
		return nil, err
	}
	w := &world{root: root, work: filepath.Join(root, "work")}
	switch sc.Tmpdir {
	case "other-fs":
		if d, err := os.MkdirTemp("/dev/shm", "worldc-tmp-"); err == nil {
			w.tmp = d
			break
		}
		fallthrough
	case "same-fs":
		w.tmp = filepath.Join(root, "tmp")
	default:
		w.tmp = filepath.Join(w.work, "tmpdir-inside")
	}
	return w, nil
}

func (w *world) cleanup() {
	os.RemoveAll(w.root)
	if strings.HasPrefix(w.tmp, "/dev/shm/") {
		os.RemoveAll(w.tmp)
	}
}

func (w *world) materialise(sc *Scenario) error {
	os.RemoveAll(w.work)
	os.RemoveAll(w.tmp)
	if err := os.MkdirAll(w.work, 0o755); err != nil {
		return err
	}
	if err := os.MkdirAll(w.tmp, 0o755); err != nil {
		return err
	}
	for _, t := range sc.Targets {
		p := filepath.Join(w.work, t.Name)
		switch t.Kind {
		case "dir":
			if err := os.MkdirAll(p, 0o755); err != nil {
				return err
			}
		case "regular":
			b, _ := base64.StdEncoding.DecodeString(t.Content)
			if err := os.WriteFile(p, b, 0o600); err != nil {
				return err
			}
			if err := os.Chmod(p, os.FileMode(t.Mode)); err != nil {
				return err
			}
		case "symlink":
			if err := os.Symlink(t.LinkTo, p); err != nil {
				return err
			}
		case "fifo":
			if err := syscall.Mkfifo(p, 0o644); err != nil {
				return err
			}
		}
	}
	for _, t := range sc.Targets {
		if t.Kind == "hardlink" {
			if err := os.Link(filepath.Join(w.work, t.LinkTo), filepath.Join(w.work, t.Name)); err != nil {
				return err
			}
		}
	}
	return nil
}

type entry struct {
	Kind string // regular symlink fifo dir other
	Mode uint32
	Sum  string
	Size int
	Link string
}

func isTempName(base string) bool {
	// renameio names its temporary files ".<base><random digits>"
	return strings.HasPrefix(base, ".") && regexp.MustCompile(`[0-9]{4,}$`).MatchString(base)
}

// snapshot records every path under the work and temp directories.
func (w *world) snapshot() (files map[string]entry, temps []string) {
	files = map[string]entry{}
	for _, base := range []string{w.work, w.tmp} {
		filepath.Walk(base, func(p string, info os.FileInfo, err error) error {
			if err != nil || p == base {
				return nil
			}
			if base == w.tmp && strings.HasPrefix(w.tmp, w.work) {
				return nil // walked as part of work already
			}
			rel := p
			if strings.HasPrefix(p, w.work) {
				rel = "work" + p[len(w.work):]
			} else {
				rel = "tmp" + p[len(w.tmp):]
			}
			if isTempName(filepath.Base(p)) {
				temps = append(temps, rel)
				return nil
			}
			e := entry{Mode: uint32(info.Mode().Perm())}
			switch {
			case info.Mode().IsRegular():
				e.Kind = "regular"
				b, _ := os.ReadFile(p)
				e.Sum, e.Size = kit.Digest(b), len(b)
			case info.Mode()&os.ModeSymlink != 0:
				e.Kind = "symlink"
				e.Link, _ = os.Readlink(p)
			case info.Mode()&os.ModeNamedPipe != 0:
				e.Kind = "fifo"
			case info.IsDir():
				e.Kind = "dir"
			default:
				e.Kind = "other"
			}
			files[rel] = e
			return nil
		})
	}
	sort.Strings(temps)
	return
}

type runResult struct {
	exit    int
	killed  bool
	calls   []call // all parsed calls
	mainPID string
	log     string
	stdout  string
}

type call struct {
	pid      string
	name     string
	text     string // whole call as strace printed it (without pid)
	masked   string
	killed   bool // "= ?" : the process died in this call
	relevant bool
}

var tempSuffixRE = regexp.MustCompile(`(/\.[^/"]*?)[0-9]{4,}"`)
var pointerRE = regexp.MustCompile(`0x[0-9a-f]{6,}`)
var lineRE = regexp.MustCompile(`^(\d+)\s+([a-z0-9_]+)\((.*)$`)

func firstRegular(sc *Scenario) string {
	for _, t := range sc.Targets {
		if t.Kind == "regular" {
			return filepath.Base(t.Name)
		}
	}
	return "none.sh"
}

// plainWrite reports whether the flags make shfmt rewrite files without
// also listing or diffing them (-l and -d change what -w does).
func plainWrite(flags []string) bool {
	for _, f := range flags {
		if f == "-l" || f == "-d" {
			return false
		}
	}
	return true
}

const recoveredSrc, recoveredFmt = "echo   recovered;  echo   again\n", "echo recovered\necho again\n"

// recoveryRun rewrites the regular ".sh" targets with a tiny unformatted
// script, runs shfmt -w once more without faults and checks the outcome.
func (w *world) recoveryRun(sc *Scenario, tempsBefore []string) string {
	var handled []string
	for _, t := range sc.Targets {
		if t.Kind != "regular" || !strings.HasSuffix(t.Name, ".sh") || strings.HasSuffix(t.Name, "broken.sh") || len(filepath.Base(t.Name)) > 200 {
			continue
		}
		p := filepath.Join(w.work, t.Name)
		f, err := os.OpenFile(p, os.O_WRONLY|os.O_TRUNC, 0)
		if err != nil {
			os.Chmod(p, 0o600) // a read-only mode: open it up, write, restore
			f, err = os.OpenFile(p, os.O_WRONLY|os.O_TRUNC, 0)
			defer os.Chmod(p, os.FileMode(t.Mode))
			if err != nil {
				continue
			}
		}
		f.WriteString(recoveredSrc)
		f.Close()
		handled = append(handled, t.Name)
	}
	if len(handled) == 0 {
		return ""
	}
	if _, err := w.runPlain(sc); err != nil {
		return "recovery run: " + err.Error()
	}
	got, temps := w.snapshot()
	want := kit.Digest([]byte(recoveredFmt))
	for _, n := range handled {
		e := got["work/"+n]
		if e.Kind != "regular" || e.Sum != want {
			return fmt.Sprintf("after a killed run, new content and a second, completed run, work/%s holds %d bytes (%s) instead of the %d formatted bytes", n, e.Size, e.Sum, len(recoveredFmt))
		}
	}
	before := map[string]bool{}
	for _, t := range tempsBefore {
		before[t] = true
	}
	for _, t := range temps {
		if !before[t] {
			return "the completed run after a killed one left a temporary file of its own: " + t
		}
	}
	return ""
}

// runPlain runs shfmt on the scenario directly: no strace, no GOMAXPROCS limit.
func (w *world) runPlain(sc *Scenario) (exit int, err error) {
	args := append([]string{}, sc.Flags...)
	for _, a := range sc.Args {
		args = append(args, filepath.Join(w.work, a))
	}
	quoted := []string{"'" + shfmtBin + "'"}
	for _, a := range args {
		quoted = append(quoted, "'"+strings.ReplaceAll(a, "'", `'\''`)+"'")
	}
	cmd := exec.Command("/bin/sh", "-c", fmt.Sprintf("umask %04o && exec %s", sc.Umask, strings.Join(quoted, " ")))
	cmd.Dir = w.root
	cmd.Env = append(os.Environ(), "TMPDIR="+w.tmp, "NO_COLOR=1")
	done := make(chan error, 1)
	if err := cmd.Start(); err != nil {
		return 0, err
	}
	go func() { done <- cmd.Wait() }()
	select {
	case err = <-done:
	case <-time.After(60 * time.Second):
		cmd.Process.Kill()
		<-done
		return 0, fmt.Errorf("shfmt did not finish within 60s")
	}
	if err != nil {
		if ee, ok := err.(*exec.ExitError); ok {
			return ee.ExitCode(), nil
		}
		return 0, err
	}
	return 0, nil
}

func (w *world) run(sc *Scenario, kp *KillPoint) (*runResult, error) {
	logPath := filepath.Join(w.root, "strace.log")
	os.Remove(logPath)
	args := []string{"-f", "-o", logPath, "-e", "trace=" + traceSet}
	if kp != nil && kp.Err != "" {
		args = append(args, "-e", fmt.Sprintf("inject=%s:error=%s:when=%d", kp.Syscall, kp.Err, kp.When))
	} else if kp != nil {
		args = append(args, "-e", fmt.Sprintf("inject=%s:error=ENOSYS:signal=SIGKILL:when=%d", kp.Syscall, kp.When))
	}
	args = append(args, shfmtBin)
	args = append(args, sc.Flags...)
	for _, a := range sc.Args {
		args = append(args, filepath.Join(w.work, a))
	}
	quoted := make([]string, len(args))
	for i, a := range args {
		quoted[i] = "'" + strings.ReplaceAll(a, "'", `'\''`) + "'"
	}
	script := fmt.Sprintf("umask %04o && exec strace %s", sc.Umask, strings.Join(quoted, " "))
	cmd := exec.Command("/bin/sh", "-c", script)
	cmd.Dir = w.root
	cmd.Env = append(os.Environ(), "TMPDIR="+w.tmp, "GOMAXPROCS=1", "NO_COLOR=1")
	var out bytes.Buffer
	cmd.Stdout = &out
	cmd.Stderr = &out
	done := make(chan error, 1)
	if err := cmd.Start(); err != nil {
		return nil, err
	}
	go func() { done <- cmd.Wait() }()
	var err error
	select {
	case err = <-done:
	case <-time.After(60 * time.Second):
		cmd.Process.Kill()
		<-done
		return nil, fmt.Errorf("shfmt under strace did not finish within 60s")
	}
	res := &runResult{stdout: out.String()}
	if err != nil {
		if ee, ok := err.(*exec.ExitError); ok {
			res.exit = ee.ExitCode()
			if ws, ok := ee.Sys().(syscall.WaitStatus); ok && ws.Signaled() {
				res.exit = 128 + int(ws.Signal())
			}
		} else {
			return nil, err
		}
	}
	b, rerr := os.ReadFile(logPath)
	if rerr != nil {
		return nil, fmt.Errorf("no strace log: %v (%s)", rerr, kit.Clip(res.stdout, 300))
	}
	res.log = string(b)
	res.killed = strings.Contains(res.log, "+++ killed by SIGKILL +++")
	fds := map[string]bool{} // "pid-independent" fd numbers opened on scenario paths
	for _, line := range mergeUnfinished(strings.Split(res.log, "\n")) {
		m := lineRE.FindStringSubmatch(line)
		if m == nil {
			continue
		}
		if res.mainPID == "" {
			res.mainPID = m[1]
		}
		c := call{pid: m[1], name: m[2], text: m[2] + "(" + m[3]}
		c.killed = strings.HasSuffix(strings.TrimSpace(m[3]), "= ?")
		// relevance: mentions a scenario path, or works on an fd opened from one
		path := strings.Contains(m[3], w.root) || (w.tmp != "" && strings.Contains(m[3], w.tmp))
		fd := ""
		if i := strings.IndexAny(m[3], ",)"); i > 0 {
			fd = strings.TrimSpace(m[3][:i])
		}
		if (c.name == "write" || c.name == "read") && (fd == "0" || fd == "1" || fd == "2") {
			path = false // messages that merely mention a scenario path
		}
		if path {
			c.relevant = true
			if c.name == "openat" {
				if j := strings.LastIndex(m[3], "= "); j >= 0 {
					r := strings.TrimSpace(m[3][j+2:])
					if _, err := strconv.Atoi(r); err == nil {
						fds[r] = true
					}
				}
			}
		} else if fds[fd] && c.name != "openat" {
			c.relevant = true
			if c.name == "close" {
				delete(fds, fd)
			}
		}
		if c.killed && c.name == "openat" && path {
			c.relevant = true
		}
		mk := tempSuffixRE.ReplaceAllString(c.text, `${1}N"`)
		mk = pointerRE.ReplaceAllString(mk, "0xPTR")
		mk = strings.ReplaceAll(mk, w.tmp, "$TMP")
		mk = strings.ReplaceAll(mk, w.root, "$ROOT")
		if j := strings.LastIndex(mk, " = "); j >= 0 && c.killed {
			mk = mk[:j]
		}
		c.masked = mk
		res.calls = append(res.calls, c)
	}
	return res, nil
}

var resumedRE = regexp.MustCompile(`^(\d+)\s+<\.\.\. [a-z0-9_]+ resumed>(.*)$`)

// mergeUnfinished joins strace's "<unfinished ...>" / "<... resumed>" line
// pairs (another thread logged something in between) into single lines,
// placed where the call returned. A call that never returned because the
// process died keeps its unfinished form, which ends in "= ?".
func mergeUnfinished(lines []string) []string {
	pending := map[string]string{}
	var out []string
	for _, l := range lines {
		if m := resumedRE.FindStringSubmatch(l); m != nil {
			if head, ok := pending[m[1]]; ok {
				delete(pending, m[1])
				out = append(out, head+m[2])
				continue
			}
		}
		if i := strings.Index(l, "<unfinished ...>"); i >= 0 && !strings.HasSuffix(strings.TrimSpace(l), "= ?") {
			if m := lineRE.FindStringSubmatch(l); m != nil {
				pending[m[1]] = l[:i]
				continue
			}
		}
		out = append(out, l)
	}
	// calls still pending when the process died
	for pid, head := range pending {
		_ = pid
		out = append(out, head+"<unfinished ...>) = ?")
	}
	return out
}

// relevantMain returns the main thread's calls that touch the scenario,
// masked, with results (used to compare reference runs).
func relevantMain(r *runResult) []string {
	var out []string
	for _, c := range r.calls {
		if c.pid == r.mainPID && c.relevant {
			out = append(out, c.masked)
		}
	}
	return out
}

// killPoints enumerates (syscall, occurrence) pairs of the main thread.
func killPoints(r *runResult) []KillPoint {
	count := map[string]int{}
	var kps []KillPoint
	tempSeen := false
	for _, c := range r.calls {
		if c.pid != r.mainPID {
			continue
		}
		count[c.name]++
		if !c.relevant {
			continue
		}
		m := c.masked
		if j := strings.LastIndex(m, " = "); j >= 0 {
			m = m[:j]
		}
		kps = append(kps, KillPoint{Syscall: c.name, When: count[c.name], Masked: m, AfterTemp: tempSeen})
		if c.name == "openat" && strings.Contains(c.text, "O_EXCL") {
			tempSeen = true
		}
	}
	return kps
}

// ------------------------------------------------------------------ oracle

type verdict struct {
	ok     bool
	class  string
	key    string
	detail string
}

// errInjected: the run completed by itself after one of its system calls was
// made to fail; its files must be whole and no temporary file may stay, but
// it need not have formatted anything and its exit status is its own.
func judge(orig, ref, got map[string]entry, temps []string, killed, errInjected bool, refExit, exit int) verdict {
	var paths []string
	seen := map[string]bool{}
	for p := range orig {
		paths, seen[p] = append(paths, p), true
	}
	for p := range got {
		if !seen[p] {
			paths = append(paths, p)
		}
	}
	sort.Strings(paths)
	for _, p := range paths {
		o, had := orig[p]
		g, has := got[p]
		f := ref[p]
		switch {
		case !had:
			return verdict{class: "unexpected-file", key: "unexpected-file", detail: fmt.Sprintf("%s appeared (%+v)", p, g)}
		case !has:
			return verdict{class: "file-lost", key: "file-lost:" + o.Kind, detail: fmt.Sprintf("%s (%s) no longer exists", p, o.Kind)}
		case o.Kind != g.Kind:
			return verdict{class: "non-regular-replaced", key: "kind-changed:" + o.Kind, detail: fmt.Sprintf("%s was a %s and is now a %s", p, o.Kind, g.Kind)}
		}
		switch o.Kind {
		case "regular":
			if g.Sum != o.Sum && g.Sum != f.Sum {
				return verdict{class: "torn-file", key: "torn-file", detail: fmt.Sprintf("%s holds neither its original bytes (%d bytes, %s) nor the formatted bytes (%d bytes, %s): %d bytes, %s", p, o.Size, o.Sum, f.Size, f.Sum, g.Size, g.Sum)}
			}
			if !killed && !errInjected && g.Sum != f.Sum {
				return verdict{class: "completed-run-differs", key: "completed-run-differs", detail: fmt.Sprintf("%s differs from the reference completed run", p)}
			}
			if g.Mode != o.Mode {
				return verdict{class: "mode-changed", key: "mode-changed", detail: fmt.Sprintf("%s permission bits %04o became %04o", p, o.Mode, g.Mode)}
			}
		case "symlink":
			if g.Link != o.Link {
				return verdict{class: "non-regular-replaced", key: "symlink-retargeted", detail: fmt.Sprintf("symlink %s pointed to %q and now points to %q", p, o.Link, g.Link)}
			}
		}
	}
	if !killed {
		if len(temps) > 0 {
			return verdict{class: "temp-left-behind", key: "temp-left-behind", detail: fmt.Sprintf("a completed run left temporary files: %v", temps)}
		}
		if exit != refExit && !errInjected {
			return verdict{class: "exit-status-differs", key: "exit-status", detail: fmt.Sprintf("completed run exit status %d, reference %d", exit, refExit)}
		}
	}
	return verdict{ok: true}
}

// ------------------------------------------------------------------ scenario run

// stdoutMode returns, for every regular file of the scenario that shfmt can
// parse, the digest of what "shfmt <format flags> <path>" prints.
func (w *world) stdoutMode(sc *Scenario, orig map[string]entry) map[string]string {
	var flags []string
	for i := 0; i < len(sc.Flags); i++ {
		switch sc.Flags[i] {
		case "-s":
			flags = append(flags, "-s")
		case "-i", "-ln":
			if i+1 < len(sc.Flags) {
				flags = append(flags, sc.Flags[i], sc.Flags[i+1])
				i++
			}
		}
	}
	out := map[string]string{}
	for p, e := range orig {
		if e.Kind != "regular" || !strings.HasPrefix(p, "work/") {
			continue
		}
		cmd := exec.Command(shfmtBin, append(append([]string{}, flags...), filepath.Join(w.work, p[len("work/"):]))...)
		cmd.Dir = w.root
		cmd.Env = append(os.Environ(), "TMPDIR="+w.tmp, "NO_COLOR=1")
		b, err := cmd.Output()
		if err != nil {
			continue // does not parse (or is not a shell file): no expectation
		}
		out[p] = kit.Digest(b)
	}
	return out
}

type scenStats struct {
	recoveryRuns          int
	plainRuns             int
	readErrContentDiffers int
	stdoutChecks          int
	idx                   int
	killRuns              int
	hits                  int // died exactly in the intended call
	misfires              int // died elsewhere or not at all (still judged)
	afterTemp             int
	distinct              map[string]bool
	syscalls              kit.Counter
	discarded             string
	viol                  *Replay
	sample                any
	refCalls              int
	completedOK           bool
	knownViols            []*Replay
	errRuns               int
	errSyscalls           kit.Counter
	bigWrites             int
}

func runScenario(sc *Scenario, only *KillPoint) (*scenStats, error) {
	st := &scenStats{idx: sc.Idx, distinct: map[string]bool{}, syscalls: kit.Counter{}, errSyscalls: kit.Counter{}}
	w, err := newWorld(sc)
	if err != nil {
		return nil, err
	}
	defer w.cleanup()
	// reference: three fault-free runs must agree on the masked call list
	var ref *runResult
	var refAfter map[string]entry
	var orig map[string]entry
	var refLists [3][]string
	for i := 0; i < 3; i++ {
		if err := w.materialise(sc); err != nil {
			return nil, err
		}
		var expect map[string]string
		if i == 0 {
			orig, _ = w.snapshot()
			expect = w.stdoutMode(sc, orig)
		}
		r, err := w.run(sc, nil)
		if err != nil {
			return nil, err
		}
		if r.killed {
			return nil, fmt.Errorf("reference run was killed: %s", kit.Clip(r.stdout, 300))
		}
		refLists[i] = relevantMain(r)
		if i == 0 {
			ref = r
			var temps []string
			refAfter, temps = w.snapshot()
			// completed-run oracle on the reference itself
			v := judge(orig, refAfter, refAfter, temps, false, false, r.exit, r.exit)
			if v.ok {
				// "the formatted bytes" are what shfmt prints for the
				// same file and flags without -w: a file the run rewrote
				// must hold exactly those
				for p, want := range expect {
					if g := refAfter[p]; g.Kind == "regular" && g.Sum != orig[p].Sum && g.Sum != want {
						v = verdict{class: "formatted-bytes-differ-from-stdout-mode", key: "formatted-bytes-differ-from-stdout-mode", detail: fmt.Sprintf("%s was rewritten by the fault-free run (%d bytes, %s), but shfmt without -w prints other bytes (%s) for the original file with the same flags", p, g.Size, g.Sum, want)}
						break
					}
					st.stdoutChecks++
				}
			}
			st.completedOK = v.ok
			if !v.ok {
				st.viol = &Replay{Property: "C35", World: "C", Scenario: *sc, Class: v.class, Key: v.key, Detail: v.detail}
				return st, nil
			}
		}
	}
	if strings.Join(refLists[0], "\n") != strings.Join(refLists[1], "\n") || strings.Join(refLists[0], "\n") != strings.Join(refLists[2], "\n") {
		st.discarded = "reference runs disagree on the file-system call sequence"
		if os.Getenv("VERIF_DEBUG_C35") != "" {
			for i := range refLists[0] {
				if i >= len(refLists[1]) || refLists[0][i] != refLists[1][i] {
					fmt.Printf("DEBUG scenario %d first disagreement at %d:\n  %s\n  %s\n", sc.Idx, i, refLists[0][i], refLists[1][min(i, len(refLists[1])-1)])
					break
				}
			}
		}
		return st, nil
	}
	// The same run without strace, on every core: anything that depends on
	// timing between goroutines (overlapped writes, shared buffers) gets a
	// second, differently paced chance to show in a completed run.
	if only == nil {
		for i := 0; i < 2; i++ {
			if err := w.materialise(sc); err != nil {
				return nil, err
			}
			exit, err := w.runPlain(sc)
			if err != nil {
				return nil, err
			}
			got, temps := w.snapshot()
			st.plainRuns++
			if v := judge(orig, refAfter, got, temps, false, false, ref.exit, exit); !v.ok {
				st.viol = &Replay{Property: "C35", World: "C", Scenario: *sc, Class: v.class, Key: v.key + ":plain-run", Detail: v.detail + " [completed run without strace, all cores]"}
				return st, nil
			}
		}
	}
	kps := killPoints(ref)
	st.refCalls = len(kps)
	allKps := kps
	if only != nil {
		kps = []KillPoint{*only}
		if only.Err != "" {
			kps = nil // no kill run; the error-injection run below
		}
	}
	if len(allKps) > 0 {
		var names []string
		for _, t := range sc.Targets {
			names = append(names, fmt.Sprintf("%s(%s,%04o)", t.Name, t.Kind, t.Mode))
		}
		var ks []string
		for i, kp := range allKps {
			if i%9 == 0 {
				ks = append(ks, kit.Clip(kp.Masked, 110))
			}
		}
		st.sample = map[string]any{"scenario": sc.Idx, "targets": names, "flags": sc.Flags, "umask": fmt.Sprintf("%04o", sc.Umask), "tmpdir": sc.Tmpdir, "kill_points": len(allKps), "some_kill_points": ks}
	}
	for _, c := range ref.calls {
		if c.name == "write" && c.relevant && strings.Contains(c.text, "...") {
			st.bigWrites++
		}
	}
	for _, kp := range kps {
		kp := kp
		var r *runResult
		hit := false
		for attempt := 0; attempt < 2; attempt++ {
			if err := w.materialise(sc); err != nil {
				return nil, err
			}
			r, err = w.run(sc, &kp)
			if err != nil {
				return nil, err
			}
			// did it die in the intended call?
			for _, c := range r.calls {
				// strace prints a call it never finished as far as the
				// arguments known on entry: `read(5,  <unfinished ...>)`
				if c.killed && c.pid == r.mainPID && c.name == kp.Syscall {
					entry := strings.ReplaceAll(strings.Join(strings.Fields(strings.Split(c.masked, "<unfinished")[0]), " "), " )", ")")
					want := strings.ReplaceAll(strings.Join(strings.Fields(kp.Masked), " "), " )", ")")
					if strings.HasPrefix(want, strings.TrimSuffix(entry, ",")) || want == entry {
						hit = true
					}
				}
			}
			if hit {
				break
			}
		}
		got, temps := w.snapshot()
		st.killRuns++
		st.syscalls.Add(kp.Syscall, 1)
		if hit {
			st.hits++
		} else {
			st.misfires++
			if os.Getenv("VERIF_DEBUG_C35") != "" {
				died := "<completed>"
				for _, c := range r.calls {
					if c.killed {
						died = c.pid + " " + c.masked
					}
				}
				fmt.Printf("DEBUG misfire scenario %d: wanted %s#%d %s\n   died in: %s (main %s, killed=%v)\n", sc.Idx, kp.Syscall, kp.When, kit.Clip(kp.Masked, 150), kit.Clip(died, 150), r.mainPID, r.killed)
			}
		}
		if kp.AfterTemp {
			st.afterTemp++
			st.distinct[fmt.Sprintf("%d/%s#%d", sc.Idx, kp.Syscall, kp.When)] = true
		}
		v := judge(orig, refAfter, got, temps, r.killed, false, ref.exit, r.exit)
		if !v.ok {
			st.viol = &Replay{Property: "C35", World: "C", Scenario: *sc, Kill: &kp, Class: v.class, Key: v.key, Detail: v.detail + fmt.Sprintf(" [killed before %s, occurrence %d: %s]", kp.Syscall, kp.When, kit.Clip(kp.Masked, 200))}
			return st, nil
		}
		// Recovery: on top of what the killed run left behind (temporary
		// files included), the targets get new, shorter content and shfmt
		// runs again, to completion. Afterwards every target it handles
		// holds exactly the formatted form of the new content, and the run
		// has added no temporary file of its own.
		if r.killed && kp.AfterTemp && plainWrite(sc.Flags) && (only != nil || (st.killRuns%6 == 3 && st.recoveryRuns < 10)) {
			if rv := w.recoveryRun(sc, temps); rv != "" {
				st.viol = &Replay{Property: "C35", World: "C", Scenario: *sc, Kill: &kp, Class: "recovery-run-after-kill", Key: "recovery-run-after-kill", Detail: rv + fmt.Sprintf(" [first run killed before %s, occurrence %d]", kp.Syscall, kp.When)}
				return st, nil
			}
			st.recoveryRuns++
		}
	}
	// Error returns instead of kills, at the calls that finish the
	// replacement once the temporary file exists: the run completes by
	// itself and must then leave whole files and no temporary file.
	if only == nil || only.Err != "" {
		for _, kp := range kps {
			if only != nil {
				kp = *only
			} else if kp.Syscall == "read" && !kp.AfterTemp {
				// a read of the source file failing: the run must report it
				// and leave the file alone
			} else if !kp.AfterTemp || !(kp.Syscall == "write" || kp.Syscall == "fsync" || kp.Syscall == "renameat" || kp.Syscall == "rename" || kp.Syscall == "fchmod") {
				continue
			}
			kp.Err = "EIO"
			if err := w.materialise(sc); err != nil {
				return nil, err
			}
			r, err := w.run(sc, &kp)
			if err != nil {
				return nil, err
			}
			got, temps := w.snapshot()
			st.errRuns++
			st.errSyscalls.Add(kp.Syscall, 1)
			v := judge(orig, refAfter, got, temps, r.killed, true, ref.exit, r.exit)
			if !v.ok && kp.Syscall == "read" && v.class == "torn-file" {
				// The property speaks of kills; what a file holds after a
				// failed read of the source is not covered by it (shfmt, for
				// one, ignores an error while sniffing the shebang line and
				// then formats the file as another dialect). Only the
				// clauses about completed runs are gated here: no temporary
				// file, non-regular files untouched. Tallied, not reported.
				st.readErrContentDiffers++
				v = verdict{ok: true}
			}
			if !v.ok {
				kpc := kp
				viol := &Replay{Property: "C35", World: "C", Scenario: *sc, Kill: &kpc, Class: v.class, Key: v.key + ":after-io-error:" + kp.Syscall, Detail: v.detail + fmt.Sprintf(" [the run completed (exit %d) after %s occurrence %d was made to fail with EIO: %s]", r.exit, kp.Syscall, kp.When, kit.Clip(kp.Masked, 200))}
				if knownKeys[viol.Key] && only == nil {
					// a listed finding must not hide what comes after it
					st.knownViols = append(st.knownViols, viol)
					continue
				}
				st.viol = viol
				return st, nil
			}
			if only != nil {
				break
			}
		}
	}
	return st, nil
}

// ------------------------------------------------------------------ main

func main() {
	if len(os.Args) < 2 {
		fmt.Fprintln(os.Stderr, "usage: worldc quick|thorough | --replay <file>")
		os.Exit(2)
	}
	if _, err := exec.LookPath("strace"); err != nil {
		fmt.Fprintln(os.Stderr, "strace not found")
		os.Exit(2)
	}
	if os.Args[1] == "--replay" {
		os.Exit(doReplay(os.Args[2]))
	}
	tier := os.Args[1]
	start := time.Now()
	root := kit.RootSeed(20260921)
	n := 16
	if tier == "thorough" {
		n = 240
	}
	if s := os.Getenv("VERIF_NCASES"); s != "" {
		n, _ = strconv.Atoi(s)
	}
	fmt.Printf("VERIF_SEED=%d property=C35 tier=%s world=C scenarios=%d\n", root, tier, n)
	if os.Getenv("VERIF_C35_LIST") != "" { // development aid: what the scenarios look like
		for i := 0; i < n; i++ {
			sc := genScenario(root, i)
			fmt.Printf("scenario %d flags=%v args=%d:", i, sc.Flags, len(sc.Args))
			for _, t := range sc.Targets {
				fmt.Printf(" %s(%s,%dB)", kit.Clip(t.Name, 20), t.Kind, len(t.Content)*3/4)
			}
			fmt.Println()
		}
		os.Exit(0)
	}
	if d := os.Getenv("VERIF_C35_DUMP"); d != "" { // development aid: "<idx>" materialises that scenario and keeps it
		idx, _ := strconv.Atoi(d)
		sc := genScenario(root, idx)
		w, err := newWorld(sc)
		if err == nil {
			err = w.materialise(sc)
		}
		fmt.Println("scenario", idx, "materialised in", w.root, "tmp", w.tmp, "flags", sc.Flags, "args", sc.Args, "umask", sc.Umask, err)
		os.Exit(0)
	}
	if fs, err := kit.LoadFindings(); err == nil {
		for _, f := range fs {
			if f.Kind == "known" && f.Property == "C35" {
				knownKeys[f.Key] = true
			}
		}
	}
	results := make([]*scenStats, n)
	errs := make([]error, n)
	var wg sync.WaitGroup
	sem := make(chan struct{}, runtime.NumCPU())
	for i := 0; i < n; i++ {
		wg.Add(1)
		go func(i int) {
			defer wg.Done()
			sem <- struct{}{}
			defer func() { <-sem }()
			results[i], errs[i] = runScenario(genScenario(root, i), nil)
		}(i)
	}
	wg.Wait()
	findings, err := kit.LoadFindings()
	if err != nil {
		fmt.Println(err)
		os.Exit(2)
	}
	var (
		killRuns, hits, misfires, afterTemp, discarded, refCalls, bigWrites, completed, errRuns int
		errSyscalls                                                                             = kit.Counter{}
		stdoutChecks, readErrDiff, plainRuns, recoveryRuns                                      int
		distinct                                                                                = map[string]bool{}
		syscalls                                                                                = kit.Counter{}
		samples                                                                                 []any
		viols                                                                                   []*Replay
		tmpKinds                                                                                = kit.Counter{}
	)
	for i, st := range results {
		if errs[i] != nil {
			fmt.Printf("check trouble: scenario %d: %v\n", i, errs[i])
			os.Exit(2)
		}
		if st.discarded != "" {
			discarded++
			continue
		}
		killRuns += st.killRuns
		hits += st.hits
		misfires += st.misfires
		afterTemp += st.afterTemp
		refCalls += st.refCalls
		bigWrites += st.bigWrites
		errRuns += st.errRuns
		errSyscalls.Merge(st.errSyscalls)
		if st.completedOK {
			completed++
		}
		stdoutChecks += st.stdoutChecks
		plainRuns += st.plainRuns
		recoveryRuns += st.recoveryRuns
		readErrDiff += st.readErrContentDiffers
		for k := range st.distinct {
			distinct[k] = true
		}
		syscalls.Merge(st.syscalls)
		if st.sample != nil && len(samples) < 8 {
			samples = append(samples, st.sample)
		}
		if st.viol != nil {
			viols = append(viols, st.viol)
		}
		viols = append(viols, st.knownViols...)
		tmpKinds.Add(genScenario(root, i).Tmpdir, 1)
	}
	if discarded*3 > n {
		fmt.Printf("check trouble: %d of %d scenarios discarded (unstable reference runs)\n", discarded, n)
		os.Exit(2)
	}
	exit := 0
	known := map[string]int{}
	nviol := 0
	reported := map[string]bool{}
	for _, v := range viols {
		if f, ok := kit.KnownKey(findings, "C35", v.Key); ok {
			if known[v.Key] == 0 {
				fmt.Printf("KNOWN-FINDING: property=C35 %s\n", strings.TrimPrefix(f.Text, "property=C35 "))
			}
			known[v.Key]++
			continue
		}
		nviol++
		if reported[v.Key] {
			continue
		}
		reported[v.Key] = true
		mv := minimiseC35(v)
		path, err := kit.WriteReplay("C35", mv)
		if err != nil {
			fmt.Println(err)
			os.Exit(2)
		}
		fmt.Printf("violation class=%s key=%s scenario=%d\n  detail=%s\n", mv.Class, mv.Key, mv.Scenario.Idx, kit.Clip(mv.Detail, 700))
		fmt.Printf("VIOLATION property=C35 replay=%s\n", path)
		exit = 1
	}
	wall := time.Since(start)
	cov := map[string]any{
		"evaluations": killRuns + completed + errRuns,
		"io_error_injection_runs(EIO at every read of a source file, and at write/fsync/rename/fchmod once the temp file exists; the run completes by itself)":            map[string]any{"runs": errRuns, "by_syscall": errSyscalls},
		"non_gating_info: runs in which a file held neither original nor reference bytes after a failed READ of the source (outside the property, which speaks of kills)": readErrDiff,
		"recovery_runs(after a kill: new shorter content on top of the leftovers, second run to completion, content and own temporary files checked)":                     recoveryRuns,
		"completed_runs_without_strace_on_all_cores(same oracle as the traced completed run)":                                                                             plainRuns,
		"files_compared_with_stdout_mode(shfmt without -w, same flags: the independent definition of 'the formatted bytes')":                                              stdoutChecks,
		"distinct_nontrivial":           len(distinct),
		"rule":                          "Scenarios (files of 0 B..200 KiB, formatted or not, 11 permission modes x 4 umasks, 1-3 targets or a walked directory, symlink/dangling symlink/FIFO targets, flag sets, TMPDIR on the same or another file system or inside the target directory) are drawn from the seed; for each scenario the fault-free run under strace gives the ordered list of file-system system calls of the main thread that touch the scenario (by path or by an fd opened from such a path), and EVERY one of them is used as a kill point: the scenario is restored and shfmt -w re-run with that call (syscall name, occurrence) replaced by SIGKILL before it executes. Oracle after a kill: every file holds exactly its original or exactly the formatted bytes, permission bits unchanged, symlinks/FIFOs/directories untouched, nothing lost or added apart from renameio temp files; completed runs: formatted bytes, original modes, no temp file left in the target directory or TMPDIR, exit status as the reference. Non-trivial: the kill point lies after the temporary file was created; distinct = distinct (scenario, syscall, occurrence).",
		"samples":                       samples,
		"exhaustive":                    true,
		"scenarios":                     n - discarded,
		"scenarios_discarded_unstable":  discarded,
		"kill_points_in_reference_runs": refCalls,
		"kill_runs":                     killRuns,
		"died_in_the_intended_call":     hits,
		"died_elsewhere_or_completed(still judged)":        misfires,
		"kill_points_after_temp_file_exists":               afterTemp,
		"completed_run_oracle_checks":                      completed,
		"fault_kinds_fired":                                map[string]any{"sigkill-before-syscall": killRuns, "by_syscall": syscalls},
		"reference_writes_larger_than_strace_prints(>32B)": bigWrites,
		"tmpdir_kinds":                                     tmpKinds,
		"simulated_time":                                   "not applicable: real process, real kernel file system; the only simulated element is the kill",
		"components":                                       map[string]string{"shfmt main, renameio, editorconfig, syntax": "real binary built from /repo", "file system": "real kernel file system under a scratch directory", "process kill": "injected by strace (error=ENOSYS:signal=SIGKILL on the chosen system call, which is not executed)"},
		"known_findings_seen":                              known,
	}
	kit.Rates(cov, int64(killRuns+3*(n-discarded)), wall)
	ev := &kit.Evidence{PropertyID: "C35", Tier: tier, Seed: int64(root), Level: "fault_enumeration", Coverage: cov, WallS: wall.Seconds(), Violations: nviol,
		Assumptions: []string{"a kill is SIGKILL of the whole process before the chosen system call executes; power loss / page-cache durability is not modelled (the property does not ask for it)", "kill points are the system calls of the main thread that touch scenario paths; calls of runtime helper threads never touch them", "three fault-free runs must agree on the call sequence, otherwise the scenario is discarded"}}
	if err := kit.WriteEvidence(ev); err != nil {
		fmt.Println(err)
		os.Exit(2)
	}
	fmt.Printf("property=C35 tier=%s scenarios=%d discarded=%d kill_points=%d kill_runs=%d hits=%d misfires=%d after_temp=%d violations=%d known=%d wall=%.1fs\n", tier, n-discarded, discarded, refCalls, killRuns, hits, misfires, afterTemp, nviol, len(known), wall.Seconds())
	os.Exit(exit)
}

// minimiseC35 drops targets and flags while the same violation class persists.
func minimiseC35(v *Replay) *Replay {
	best := *v
	deadline := time.Now().Add(60 * time.Second)
	try := func(sc Scenario) *Replay {
		if time.Now().After(deadline) {
			return nil
		}
		st, err := runScenario(&sc, nil)
		if err != nil || st.viol == nil || st.viol.Key != v.Key {
			return nil
		}
		return st.viol
	}
	for changed := true; changed; {
		changed = false
		for i := range best.Scenario.Targets {
			sc := best.Scenario
			t := sc.Targets[i]
			if t.Kind == "dir" {
				continue
			}
			sc.Targets = append(append([]Target{}, sc.Targets[:i]...), sc.Targets[i+1:]...)
			var args []string
			for _, a := range sc.Args {
				if a != t.Name {
					args = append(args, a)
				}
			}
			if len(args) == 0 {
				continue
			}
			sc.Args = args
			if nv := try(sc); nv != nil {
				best, changed = *nv, true
				break
			}
		}
	}
	if len(best.Scenario.Flags) > 1 {
		sc := best.Scenario
		sc.Flags = []string{"-w"}
		if nv := try(sc); nv != nil {
			best = *nv
		}
	}
	// shrink file contents
	for i := range best.Scenario.Targets {
		t := best.Scenario.Targets[i]
		if t.Kind != "regular" {
			continue
		}
		b, _ := base64.StdEncoding.DecodeString(t.Content)
		for _, size := range []int{40, 400, 4000} {
			if len(b) <= size {
				break
			}
			sc := best.Scenario
			sc.Targets = append([]Target{}, sc.Targets...)
			cut := b[:size]
			if j := bytes.LastIndexByte(cut, '\n'); j > 0 {
				cut = cut[:j+1]
			}
			sc.Targets[i].Content = base64.StdEncoding.EncodeToString(cut)
			if nv := try(sc); nv != nil {
				best = *nv
				break
			}
		}
	}
	return &best
}

func doReplay(path string) int {
	b, err := os.ReadFile(path)
	if err != nil {
		fmt.Println(err)
		return 2
	}
	var rep Replay
	if err := json.Unmarshal(b, &rep); err != nil {
		fmt.Println(err)
		return 2
	}
	st, err := runScenario(&rep.Scenario, rep.Kill)
	if err != nil {
		fmt.Println("replay trouble:", err)
		return 2
	}
	if st.viol == nil {
		fmt.Printf("replay diverged: no violation reproduced (recorded class=%s)\n", rep.Class)
		return 2
	}
	if st.viol.Class != rep.Class || st.viol.Key != rep.Key {
		fmt.Printf("replay diverged: recorded %s/%s, observed %s/%s\n", rep.Class, rep.Key, st.viol.Class, st.viol.Key)
		return 2
	}
	fmt.Printf("replayed: class=%s key=%s\n  detail=%s\n", st.viol.Class, st.viol.Key, kit.Clip(st.viol.Detail, 700))
	fmt.Printf("VIOLATION property=C35 replay=%s\n", path)
	return 1
}
