// harvest extracts shell programs from the string literals of the
// repository's own test tables (plus testdata files) into
// /verif/corpus/corpus.jsonl. It is run once by hand; the checks read the
// committed corpus so that later edits of test files do not change them.
package main

import (
	"bytes"
	"encoding/json"
	"fmt"
	"go/ast"
	"go/parser"
	"go/token"
	"os"
	"path/filepath"
	"sort"
	"strconv"
	"strings"

	"mvdan.cc/sh/v3/syntax"
)

type Entry struct {
	Src   string   `json:"src"`
	Valid []string `json:"valid"` // variants in which it parses
	From  string   `json:"from"`
}

var variants = []syntax.LangVariant{syntax.LangBash, syntax.LangPOSIX, syntax.LangMirBSDKorn, syntax.LangBats, syntax.LangZsh}

func validIn(src string) []string {
	var out []string
	for _, v := range variants {
		ok := func() (ok bool) {
			defer func() {
				if recover() != nil {
					ok = false
				}
			}()
			_, err := syntax.NewParser(syntax.Variant(v), syntax.KeepComments(true)).Parse(strings.NewReader(src), "")
			return err == nil
		}()
		if ok {
			out = append(out, v.String())
		}
	}
	return out
}

func main() {
	repo := "/repo"
	seen := map[string]bool{}
	var entries []Entry
	add := func(src, from string, keepInvalid bool) {
		if src == "" || len(src) > 64<<10 || seen[src] {
			return
		}
		seen[src] = true
		v := validIn(src)
		if len(v) == 0 && !keepInvalid {
			return
		}
		entries = append(entries, Entry{Src: src, Valid: v, From: from})
	}
	dirs := []string{"syntax", "interp", "expand", "shell", "cmd/shfmt", "cmd/gosh", "pattern", "fileutil", "syntax/typedjson"}
	for _, d := range dirs {
		files, _ := filepath.Glob(filepath.Join(repo, d, "*_test.go"))
		sort.Strings(files)
		for _, fn := range files {
			fset := token.NewFileSet()
			f, err := parser.ParseFile(fset, fn, nil, 0)
			if err != nil {
				fmt.Fprintln(os.Stderr, err)
				continue
			}
			// Invalid inputs are kept only from the syntax package's tables
			// (they are the error tables); elsewhere a string that does not
			// parse is most likely not shell at all.
			keepInvalid := d == "syntax"
			rel, _ := filepath.Rel(repo, fn)
			ast.Inspect(f, func(n ast.Node) bool {
				bl, ok := n.(*ast.BasicLit)
				if !ok || bl.Kind != token.STRING {
					return true
				}
				s, err := strconv.Unquote(bl.Value)
				if err != nil {
					return true
				}
				if keepInvalid && !looksShell(s) {
					add(s, rel, false)
				} else {
					add(s, rel, keepInvalid)
				}
				return true
			})
		}
	}
	// Whole files.
	for _, pat := range []string{"syntax/canonical.sh", "cmd/shfmt/testdata/script/*.txtar", "interp/testdata/*", "cmd/gosh/testdata/*"} {
		files, _ := filepath.Glob(filepath.Join(repo, pat))
		sort.Strings(files)
		for _, fn := range files {
			b, err := os.ReadFile(fn)
			if err != nil {
				continue
			}
			rel, _ := filepath.Rel(repo, fn)
			if strings.HasSuffix(fn, ".txtar") {
				for _, part := range splitTxtar(b) {
					add(part, rel, false)
				}
				continue
			}
			add(string(b), rel, false)
		}
	}
	out, err := os.Create("/verif/corpus/corpus.jsonl")
	if err != nil {
		panic(err)
	}
	enc := json.NewEncoder(out)
	enc.SetEscapeHTML(false)
	nvalid := 0
	for _, e := range entries {
		if len(e.Valid) > 0 {
			nvalid++
		}
		enc.Encode(e)
	}
	out.Close()
	fmt.Printf("entries=%d valid_in_some_variant=%d\n", len(entries), nvalid)
}

// looksShell filters error-table candidates: Go format strings and error
// message texts of the test files are not interesting invalid inputs.
func looksShell(s string) bool {
	if strings.Contains(s, "%v") || strings.Contains(s, "%s") || strings.Contains(s, "%q") {
		return false
	}
	if len(s) > 400 {
		return false
	}
	// error messages look like "1:1: ..." – drop them
	if len(s) > 3 && s[0] >= '0' && s[0] <= '9' && strings.Contains(s[:min(6, len(s))], ":") {
		return false
	}
	return true
}

func splitTxtar(b []byte) []string {
	var parts []string
	var cur bytes.Buffer
	for _, line := range bytes.SplitAfter(b, []byte("\n")) {
		if bytes.HasPrefix(line, []byte("-- ")) && bytes.HasSuffix(bytes.TrimRight(line, "\n"), []byte(" --")) {
			if cur.Len() > 0 {
				parts = append(parts, cur.String())
			}
			cur.Reset()
			continue
		}
		cur.Write(line)
	}
	if cur.Len() > 0 {
		parts = append(parts, cur.String())
	}
	return parts
}
