// harvest extracts shell programs from the string literals of the
// repository's own test tables (plus testdata files) into
// /verif/corpus/corpus.jsonl. It is run once by hand; the checks read the
// committed corpus so that later edits of test files do not change them.
package main

import (
	"bytes"
	"context"
	"encoding/json"
	"fmt"
	"go/ast"
	"go/parser"
	"go/token"
	"os"
	"os/exec"
	"path/filepath"
	"sort"
	"strconv"
	"strings"
	"sync"
	"time"

	"mvdan.cc/sh/v3/syntax"
)

type Entry struct {
	Src   string   `json:"src"`
	Valid []string `json:"valid"` // variants in which it parses
	From  string   `json:"from"`
}

var variants = []syntax.LangVariant{syntax.LangBash, syntax.LangPOSIX, syntax.LangMirBSDKorn, syntax.LangBats, syntax.LangZsh}

func validIn(src string) []string {
	var out []string
	for _, v := range variants {
		ok := func() (ok bool) {
			defer func() {
				if recover() != nil {
					ok = false
				}
			}()
			_, err := syntax.NewParser(syntax.Variant(v), syntax.KeepComments(true)).Parse(strings.NewReader(src), "")
			return err == nil
		}()
		if ok {
			out = append(out, v.String())
		}
	}
	return out
}

func main() {
	repo := "/repo"
	seen := map[string]bool{}
	var entries []Entry
	add := func(src, from string, keepInvalid bool) {
		if src == "" || len(src) > 64<<10 || seen[src] {
			return
		}
		seen[src] = true
		v := validIn(src)
		if len(v) == 0 && !keepInvalid {
			return
		}
		entries = append(entries, Entry{Src: src, Valid: v, From: from})
	}
	dirs := []string{"syntax", "interp", "expand", "shell", "cmd/shfmt", "cmd/gosh", "pattern", "fileutil", "syntax/typedjson"}
	for _, d := range dirs {
		files, _ := filepath.Glob(filepath.Join(repo, d, "*_test.go"))
		sort.Strings(files)
		for _, fn := range files {
			fset := token.NewFileSet()
			f, err := parser.ParseFile(fset, fn, nil, 0)
			if err != nil {
				fmt.Fprintln(os.Stderr, err)
				continue
			}
			// Invalid inputs are kept only from the syntax package's tables
			// (they are the error tables); elsewhere a string that does not
			// parse is most likely not shell at all.
			keepInvalid := d == "syntax"
			rel, _ := filepath.Rel(repo, fn)
			ast.Inspect(f, func(n ast.Node) bool {
				bl, ok := n.(*ast.BasicLit)
				if !ok || bl.Kind != token.STRING {
					return true
				}
				s, err := strconv.Unquote(bl.Value)
				if err != nil {
					return true
				}
				if keepInvalid && !looksShell(s) {
					add(s, rel, false)
				} else {
					add(s, rel, keepInvalid)
				}
				return true
			})
		}
	}
	// Whole files.
	for _, pat := range []string{"syntax/canonical.sh", "cmd/shfmt/testdata/script/*.txtar", "interp/testdata/*", "cmd/gosh/testdata/*"} {
		files, _ := filepath.Glob(filepath.Join(repo, pat))
		sort.Strings(files)
		for _, fn := range files {
			b, err := os.ReadFile(fn)
			if err != nil {
				continue
			}
			rel, _ := filepath.Rel(repo, fn)
			if strings.HasSuffix(fn, ".txtar") {
				for _, part := range splitTxtar(b) {
					add(part, rel, false)
				}
				continue
			}
			add(string(b), rel, false)
		}
	}
	out, err := os.Create("/verif/corpus/corpus.jsonl")
	if err != nil {
		panic(err)
	}
	enc := json.NewEncoder(out)
	enc.SetEscapeHTML(false)
	nvalid := 0
	for _, e := range entries {
		if len(e.Valid) > 0 {
			nvalid++
		}
		enc.Encode(e)
	}
	out.Close()
	fmt.Printf("entries=%d valid_in_some_variant=%d\n", len(entries), nvalid)
	writeVariants(entries)
}

// writeVariants records line-break variants of the short bash-valid entries:
// one space replaced by a newline, kept when BOTH this tree's parser and the
// real bash ("bash -n", syntax check only, nothing is executed) accept the
// result. The file is the checks' independent record of "this is a valid
// program": a later change that makes the parser reject one of them is then
// seen as such instead of silently shrinking the set of valid programs.
func writeVariants(entries []Entry) {
	type job struct {
		src  string
		from string
	}
	var jobs []job
	for i, e := range entries {
		if len(e.Src) == 0 || len(e.Src) > 300 || !slicesContains(e.Valid, "bash") || strings.ContainsRune(e.Src, 0) {
			continue
		}
		for j := 0; j < len(e.Src); j++ {
			if e.Src[j] != ' ' && e.Src[j] != '\t' {
				continue
			}
			v := e.Src[:j] + "\n" + e.Src[j+1:]
			if _, err := syntax.NewParser(syntax.Variant(syntax.LangBash), syntax.KeepComments(true)).Parse(strings.NewReader(v), ""); err != nil {
				continue
			}
			jobs = append(jobs, job{v, fmt.Sprintf("line break at %d of corpus[%d]", j, i)})
		}
	}
	dir, err := os.MkdirTemp("", "harvest-bash-")
	if err != nil {
		panic(err)
	}
	defer os.RemoveAll(dir)
	ok := make([]bool, len(jobs))
	var wg sync.WaitGroup
	sem := make(chan struct{}, 16)
	for i := range jobs {
		wg.Add(1)
		sem <- struct{}{}
		go func(i int) {
			defer wg.Done()
			defer func() { <-sem }()
			fn := filepath.Join(dir, strconv.Itoa(i)+".sh")
			if os.WriteFile(fn, []byte(jobs[i].src), 0o644) != nil {
				return
			}
			ctx, cancel := context.WithTimeout(context.Background(), 5*time.Second)
			defer cancel()
			ok[i] = exec.CommandContext(ctx, "bash", "-n", fn).Run() == nil
			os.Remove(fn)
		}(i)
	}
	wg.Wait()
	out, err := os.Create("/verif/corpus/variants.jsonl")
	if err != nil {
		panic(err)
	}
	enc := json.NewEncoder(out)
	enc.SetEscapeHTML(false)
	n := 0
	seen := map[string]bool{}
	for i, j := range jobs {
		if ok[i] && !seen[j.src] {
			seen[j.src] = true
			enc.Encode(Entry{Src: j.src, Valid: []string{"bash"}, From: j.from})
			n++
		}
	}
	out.Close()
	fmt.Printf("line-break variants: candidates=%d accepted_by_parser_and_bash=%d\n", len(jobs), n)
}

func slicesContains(xs []string, x string) bool {
	for _, y := range xs {
		if y == x {
			return true
		}
	}
	return false
}

// looksShell filters error-table candidates: Go format strings and error
// message texts of the test files are not interesting invalid inputs.
func looksShell(s string) bool {
	if strings.Contains(s, "%v") || strings.Contains(s, "%s") || strings.Contains(s, "%q") {
		return false
	}
	if len(s) > 400 {
		return false
	}
	// error messages look like "1:1: ..." – drop them
	if len(s) > 3 && s[0] >= '0' && s[0] <= '9' && strings.Contains(s[:min(6, len(s))], ":") {
		return false
	}
	return true
}

func splitTxtar(b []byte) []string {
	var parts []string
	var cur bytes.Buffer
	for _, line := range bytes.SplitAfter(b, []byte("\n")) {
		if bytes.HasPrefix(line, []byte("-- ")) && bytes.HasSuffix(bytes.TrimRight(line, "\n"), []byte(" --")) {
			if cur.Len() > 0 {
				parts = append(parts, cur.String())
			}
			cur.Reset()
			continue
		}
		cur.Write(line)
	}
	if cur.Len() > 0 {
		parts = append(parts, cur.String())
	}
	return parts
}
