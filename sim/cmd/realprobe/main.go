// Command realprobe is the part of the C31 check that is NOT a simulation: it
// runs the interpreter as shipped (built WITHOUT the verif tag, so none of the
// hook files is compiled in) with the real DefaultExecHandler, real child
// processes, real OS pipes and the real clock.
package main

import (
	"context"
	"encoding/json"
	"fmt"
	"os"
	"os/exec"
	"sort"
	"strings"
	"sync"
	"time"

	"mvdan.cc/sh/v3/interp"
	"mvdan.cc/sh/v3/syntax"
)

// ProbeResult is one case of the probe (the driver reads the same fields).
type ProbeResult struct {
	Name     string  `json:"name"`
	Program  string  `json:"program"`
	OK       bool    `json:"ok"`
	Class    string  `json:"class,omitempty"`
	Detail   string  `json:"detail,omitempty"`
	Seconds  float64 `json:"seconds"`
	Err      string  `json:"err"`
	Attempts int     `json:"attempts"`
}

// Each case runs a program, cancels the context after 200 ms and requires Run
// to return a non-nil error within the kill timeout plus a margin. Bounds are
// wide and cases are retried, so machine load cannot turn it into a false
// alarm.
func main() {
	if len(os.Args) < 2 {
		fmt.Fprintln(os.Stderr, "usage: realprobe <result.json>")
		os.Exit(2)
	}
	out := os.Args[1]
	const killTimeout = 500 * time.Millisecond
	const bound = killTimeout + 20*time.Second
	cases := []struct {
		name, prog  string
		silentStdin bool
	}{
		{"sleep-fg", "sleep 100", false},
		{"sigint-ignoring-child", `sh -c 'trap "" INT TERM; sleep 100'`, false},
		{"sigint-ignoring-child-in-pipeline", `sh -c 'trap "" INT; sleep 100' | cat`, false},
		{"sleep-bg-wait", "sleep 100 & wait", false},
		{"sleep-in-cmdsubst", "x=$(sleep 100)", false},
		{"child-blocked-on-stdin", "cat", true},
		{"read-blocked-on-stdin", "read x", true},
		{"child-inherited-stdin-then-read", "sleep 0.01; read x", true},
		{"child-inherited-stdin-then-read-loop", "true; sleep 0.01; while read x; do :; done", true},
		{"test-t-0-then-read", "[ -t 0 ]; read x", true},
		{"test-t-0-then-read-loop", "if test -t 0; then :; fi; while read x; do :; done", true},
		{"test-t-1-then-read", "[ -t 1 ]; read x", true},
		{"mapfile-blocked-on-stdin", "mapfile lines", true},
		{"select-blocked-on-stdin", "select o in a b; do :; done", true},
		{"read-blocked-on-wrapped-file-stdin", "read x", true},
		{"mapfile-blocked-on-wrapped-file-stdin", "mapfile lines", true},
		{"loop-around-child", "while true; do sleep 0.05; done", false},
		{"procsubst-with-child", "cat <(sleep 100)", false},
	}
	// The cases are independent (own runner, own pipes, own children) and
	// mostly wait, so they run side by side; a case that did not return is
	// not retried (20 s against an expected half second leaves load no
	// chance), a case that returned a wrong result is.
	type job struct {
		name, prog  string
		silentStdin bool
		kt, bound   time.Duration
	}
	wrapStdinFor = map[string]bool{"read-blocked-on-wrapped-file-stdin": true, "mapfile-blocked-on-wrapped-file-stdin": true}
	var jobs []job
	// the kill timeout itself is a parameter of DefaultExecHandler: negative
	// and zero mean "kill at once"
	for _, kt := range []time.Duration{-1, 0, 50 * time.Millisecond} {
		jobs = append(jobs, job{fmt.Sprintf("sigint-ignoring-child-killtimeout=%v", kt), `sh -c 'trap "" INT TERM; exec sleep 100'`, false, kt, max(kt, 0) + 20*time.Second})
	}
	for _, c := range cases {
		jobs = append(jobs, job{c.name, c.prog, c.silentStdin, killTimeout, bound})
	}
	// a grandchild that survives the kill and keeps the write end of the
	// command substitution's pipe open
	for _, kt := range []time.Duration{-1, 500 * time.Millisecond} {
		jobs = append(jobs, job{fmt.Sprintf("orphan-holds-cmdsubst-pipe-killtimeout=%v", kt), `x=$(sh -c 'sleep 45 & wait')`, false, kt, max(kt, 0) + 20*time.Second})
	}
	// A script without a shebang line runs through the ENOEXEC fallback, in
	// a nested Runner; the configured kill timeout must hold there too. The
	// nested default is 2 s, so this case needs a tighter bound than the
	// others: the kill timeout plus a margin scaled by how slow process
	// creation is right now (at least 1.2 s), and three attempts.
	if dir, err := os.MkdirTemp("", "verif-probe-"); err == nil {
		defer os.RemoveAll(dir)
		script := dir + "/noshebang"
		os.WriteFile(script, []byte("sh -c \"trap '' INT TERM; exec sleep 30\"\n"), 0o755)
		margin := 1200 * time.Millisecond
		if m := 40 * spawnTime(); m > margin {
			margin = m
		}
		jobs = append(jobs, job{"enoexec-script-child-ignores-sigint-killtimeout=100ms", script, false, 100 * time.Millisecond, 100*time.Millisecond + margin})
	}
	results := make([]ProbeResult, len(jobs))
	var wg sync.WaitGroup
	for i, j := range jobs {
		wg.Add(1)
		go func() {
			defer wg.Done()
			var res ProbeResult
			for attempt := 1; attempt <= 3; attempt++ {
				res = runRealProbe(j.name, j.prog, j.silentStdin, j.kt, j.bound)
				res.Attempts = attempt
				if res.OK || (res.Class == "slow-after-cancel" && j.bound >= 10*time.Second) {
					break
				}
			}
			results[i] = res
		}()
	}
	wg.Wait()
	b, _ := json.MarshalIndent(results, "", " ")
	if err := os.WriteFile(out, b, 0o644); err != nil {
		fmt.Fprintln(os.Stderr, err)
		os.Exit(2)
	}
}

// fileWrapper is what a caller uses to count or log what the shell reads: it
// embeds the file, so it has an Fd method, but it is not an *os.File.
type fileWrapper struct{ *os.File }

var wrapStdinFor map[string]bool

// spawnTime is the median time of starting and reaping a trivial process.
func spawnTime() time.Duration {
	var ds []time.Duration
	for i := 0; i < 5; i++ {
		t0 := time.Now()
		exec.Command("true").Run()
		ds = append(ds, time.Since(t0))
	}
	sort.Slice(ds, func(i, j int) bool { return ds[i] < ds[j] })
	return ds[2]
}

func runRealProbe(name, prog string, silentStdin bool, killTimeout, bound time.Duration) ProbeResult {
	res := ProbeResult{Name: name, Program: prog}
	f, err := syntax.NewParser(syntax.Variant(syntax.LangBash)).Parse(strings.NewReader(prog), "")
	if err != nil {
		res.Class, res.Detail = "harness", err.Error()
		return res
	}
	opts := []interp.RunnerOption{interp.ExecHandlers(func(next interp.ExecHandlerFunc) interp.ExecHandlerFunc {
		return interp.DefaultExecHandler(killTimeout)
	})}
	var pr, pw *os.File
	if silentStdin {
		pr, pw, err = os.Pipe()
		if err != nil {
			res.Class, res.Detail = "harness", err.Error()
			return res
		}
		defer pr.Close()
		defer pw.Close()
		if wrapStdinFor[name] {
			// not an *os.File, but it has all of its methods (Fd included)
			opts = append(opts, interp.StdIO(fileWrapper{pr}, nil, nil))
		} else {
			opts = append(opts, interp.StdIO(pr, nil, nil))
		}
	}
	r, err := interp.New(opts...)
	if err != nil {
		res.Class, res.Detail = "harness", err.Error()
		return res
	}
	ctx, cancel := context.WithCancel(context.Background())
	defer cancel()
	done := make(chan error, 1)
	go func() { done <- r.Run(ctx, f) }()
	time.Sleep(200 * time.Millisecond)
	start := time.Now()
	cancel()
	select {
	case err := <-done:
		res.Seconds = time.Since(start).Seconds()
		if err != nil {
			res.Err = err.Error()
		}
		switch {
		case err == nil:
			res.Class, res.Detail = "nil-error-after-cancel", fmt.Sprintf("real processes: %q cancelled after 200ms returned a nil error", prog)
		default:
			res.OK = true
		}
	case <-time.After(bound):
		res.Seconds = bound.Seconds()
		res.Class, res.Detail = "slow-after-cancel", fmt.Sprintf("real processes: %q had not returned %v after the cancellation (kill timeout %v)", prog, bound, killTimeout)
	}
	return res
}

var _ = strings.TrimSpace
