// worldb-driver fans the simulated runs of one World-B property out over
// worker processes (one OS process each: the race detector reports a given
// race once per process, and a crashing run must not take the batch down),
// runs the determinism gate, merges the verdicts, minimises and replays
// violations, and writes the evidence file.
package main

import (
	"bufio"
	"bytes"
	"encoding/json"
	"fmt"
	"os"
	"os/exec"
	"path/filepath"
	"runtime"
	"sort"
	"strconv"
	"strings"
	"sync"
	"time"

	"verifsim/kit"
	"verifsim/worldb"
)

type propDef struct {
	level       string
	quick, thor int
	rule        string
	assume      []string
}

var props = map[string]propDef{
	"C27": {"exploration", 2400, 40000,
		"Each case: a generated parent state (scalars, dense/sparse indexed arrays, associative arrays, exported/readonly variables, functions, aliases, options, cwd and directory stack, positional parameters; one third inside a function with locals), a generated mutating command list S placed in one isolating context (( ), $( ), <( ), >( ), first/middle/last pipeline stage, background job + wait, nestings), optional parent-side statements T that run while the child is alive, a seeded scheduling strategy, pipe capacity and I/O faults inside S. Oracle: in-shell dump (declare -p, declare -f, alias, shopt, set +o, pwd, dirs, params) and Go-level Runner.Vars/Funcs/Dir/Params after the final wait equal those of a sequential reference run of SETUP;T without S. Non-trivial: S non-empty and the run executed; distinct = distinct (program, schedule tape, faults) hashes.",
		[]string{"the reference run (same interpreter, no S, sequential schedule) defines the expected parent state", "output of S itself is discarded; data races are reported under C32"}},
	"C29": {"exploration", 4000, 60000,
		"Each case: a generated program (alias chains, declare/export with brace-expanded arguments, brace expansion in arguments/array elements/for lists, here-documents incl. <<-, functions, traps, background and piped statements, +=, nested substitutions, assignments to every variable kind served by the supplied Environ) run under a seeded schedule with optional cancellation at a seeded step and I/O faults. Oracle: typed-JSON and printed form of the *File taken before Run equal those taken after Run returned and every spawned goroutine finished; the recording Environ given through interp.Env saw no Set call and serves deep-equal values (including the spare capacity of its indexed array). Non-trivial: more than 3 scheduling steps; distinct = distinct (program, tape, faults) hashes.",
		[]string{"typedjson encoding plus the printed form are taken as 'the tree'"}},
	"C30": {"exploration", 2800, 40000,
		"Each case: a history of 1..6 generated programs on one Runner (assignments, options, traps, functions, aliases, cd/pushd, exit, failing and fatal commands, exec redirections, quiet background jobs left running), each ending normally, by exit, by a fatal handler error or by cancellation at a seeded step, then Reset and P; compared with P on a Runner made by New with the same options (stdout, stderr, returned error, Exited, Vars, Funcs, Dir, Params). One quarter of the cases instead compare Run(file) with one Run call per top-level statement stopping at Exited (programs without EXIT trap). Non-trivial: the history run finished; distinct = distinct (history+P, tape, faults) hashes.",
		[]string{"external state (simulated files, consumed stdin) is kept out of the comparison by construction: histories never read the shared stdin nor write files P reads"}},
	"C31": {"exploration", 3800, 60000,
		"Each case: one of 93 listed non-terminating or forever-blocking programs, or a program composed from 26 never-ending cores and 44 status-consuming constructs nested up to two deep (listed shapes: infinite loops in every syntactic position, blocked read/read -a/mapfile/select/cat on a silent stdin, wait and wait gN on sleeping/looping/blocked jobs, process substitutions never opened / opened but never read / read slowly, pipelines blocked on either side with tiny pipe capacity, here-document writers blocked on a full pipe, commands that ignore cancellation for up to 2 s) with a seeded prefix, crossed with the cancellation step: steps 0..23 are enumerated for every listed program, steps of composed programs and later steps are drawn; a third of the cases run 1-2 warm-up Run calls with contexts of their own on the same Runner first, an eighth run statement by statement; the cancellation fires at that controller step or at the first idle instant before it. Oracle after the cancel event: Run returns within 2000 scheduling steps and 3 s of simulated time, never ends in a state where nothing is runnable and no timer is pending, and returns a non-nil error. Non-trivial: the cancellation fired; distinct = distinct (program, tape, cancel step) hashes.",
		[]string{"simulated commands honour the context at once except 'stubborn d' (d <= 2 s), which stands for a child that ignores SIGINT until the kill timeout", "the real DefaultExecHandler signalling path is outside the simulation"}},
	"C32": {"exploration", 3600, 60000,
		"Each case is one of: (race) a generated parent state and statement lists S and T touching the same names, S in a concurrent construct (background job, background subshell, >( ), both sides of | and |&, command substitution inside a job, <( ) inside a job, two jobs, a function run in a job) and T in the parent, under a seeded schedule with I/O faults; (subshell-api) Runner.Subshell() copy and parent run generated programs concurrently; (wait) 1..5 jobs with distinct exit codes and simulated durations, then wait gJ; echo $? in seeded order. Oracle: the Go race detector (scheduler hand-offs hidden from it, so serialisation adds no happens-before edges) reports nothing during the run, no panic, and the wait statuses printed are the jobs' codes, bare wait gives 0, an unknown job id gives 1. Non-trivial: at least one context switch between live goroutines; distinct = distinct (program, tape, faults) hashes.",
		[]string{"race reports are attributed to the first run of a worker process that shows them (the detector reports a given pair of stacks once per process); replay and minimisation use fresh processes", "simulated pipes keep a visible mutex (bytes written then read are causality); production os.Pipe orders strictly more"}},
}

var (
	verif   = kit.VerifDir()
	binTest = filepath.Join(verif, "bin", "worldb.test")
	scratch string
)

func main() {
	if len(os.Args) < 3 {
		fmt.Fprintln(os.Stderr, "usage: worldb-driver <C27|C29|C30|C31|C32> quick|thorough | --replay <file>")
		os.Exit(2)
	}
	prop := os.Args[1]
	def, ok := props[prop]
	if !ok {
		fmt.Fprintln(os.Stderr, "unknown property", prop)
		os.Exit(2)
	}
	var err error
	scratch, err = os.MkdirTemp("", "worldb-"+prop+"-")
	if err != nil {
		fmt.Fprintln(os.Stderr, err)
		os.Exit(2)
	}
	code := 2
	defer func() {
		os.RemoveAll(scratch)
		os.Exit(code)
	}()
	if os.Args[2] == "--replay" {
		code = doReplay(prop, os.Args[3])
		return
	}
	code = doCheck(prop, def, os.Args[2])
}

// ------------------------------------------------------------------ workers

type workerResult struct {
	verdicts []*worldb.Verdict
	crashed  *worldb.Case // the case that was running when the process died
	stderr   string
	done     bool
	timedOut bool
}

var jobSeq int
var jobMu sync.Mutex

func runWorker(job *worldb.Job, gomaxprocs int, timeout time.Duration) *workerResult {
	jobMu.Lock()
	jobSeq++
	id := jobSeq
	jobMu.Unlock()
	base := filepath.Join(scratch, fmt.Sprintf("job%d", id))
	job.Out = base + ".out"
	job.RaceLog = base + ".race"
	b, _ := json.Marshal(job)
	os.WriteFile(base+".json", b, 0o644)
	cmd := exec.Command(binTest, "-test.run", "^TestWorker$", "-test.timeout", "0")
	cmd.Env = append(os.Environ(), "VERIF_B_JOB="+base+".json",
		"GORACE=halt_on_error=0 log_path="+job.RaceLog, "GOMAXPROCS="+strconv.Itoa(gomaxprocs))
	var stderr bytes.Buffer
	cmd.Stdout = &stderr
	cmd.Stderr = &stderr
	res := &workerResult{}
	if err := cmd.Start(); err != nil {
		res.stderr = err.Error()
		return res
	}
	doneCh := make(chan error, 1)
	go func() { doneCh <- cmd.Wait() }()
	select {
	case <-doneCh:
	case <-time.After(timeout):
		cmd.Process.Kill()
		<-doneCh
		res.timedOut = true
	}
	res.stderr = stderr.String()
	if f, err := os.Open(job.Out); err == nil {
		sc := bufio.NewScanner(f)
		sc.Buffer(make([]byte, 1<<20), 64<<20)
		for sc.Scan() {
			line := sc.Bytes()
			if bytes.Contains(line, []byte(`"worker_done"`)) {
				res.done = true
				continue
			}
			var v worldb.Verdict
			if json.Unmarshal(line, &v) == nil {
				res.verdicts = append(res.verdicts, &v)
			}
		}
		f.Close()
	}
	if !res.done {
		if cur, err := os.ReadFile(job.Out + ".cur"); err == nil {
			var c worldb.Case
			if json.Unmarshal(cur, &c) == nil {
				res.crashed = &c
			}
		}
	}
	// leave no per-job files behind
	for _, suf := range []string{".out", ".out.cur", ".json"} {
		os.Remove(base + suf)
	}
	if m, _ := filepath.Glob(job.RaceLog + ".*"); m != nil {
		for _, f := range m {
			os.Remove(f)
		}
	}
	return res
}

// runIndexes runs the given case indexes on nw worker processes, restarting
// after a crash so that every index is judged.
func runIndexes(prop, tier string, root uint64, indexes []int, nw int, timeout time.Duration) (all []*worldb.Verdict, crashes []*worldb.Verdict, trouble string) {
	parts := make([][]int, nw)
	for i, idx := range indexes {
		if prop == "C32" && idx < 96 {
			// a process of its own: races on state that is initialised on
			// first use show only the first time in a process
			parts = append(parts, []int{idx})
			continue
		}
		parts[i%nw] = append(parts[i%nw], idx)
	}
	var mu sync.Mutex
	var wg sync.WaitGroup
	sem := make(chan struct{}, nw)
	for w := 0; w < len(parts); w++ {
		if len(parts[w]) == 0 {
			continue
		}
		wg.Add(1)
		go func(part []int) {
			defer wg.Done()
			sem <- struct{}{}
			defer func() { <-sem }()
			for len(part) > 0 {
				res := runWorker(&worldb.Job{Property: prop, Tier: tier, Root: root, Indexes: part}, runtime.NumCPU(), timeout)
				mu.Lock()
				all = append(all, res.verdicts...)
				mu.Unlock()
				if res.done {
					return
				}
				if res.timedOut {
					mu.Lock()
					trouble = "a worker exceeded its watchdog of " + timeout.String()
					mu.Unlock()
					return
				}
				if res.crashed == nil {
					mu.Lock()
					trouble = "a worker died without a case descriptor: " + kit.Clip(res.stderr, 2000)
					mu.Unlock()
					return
				}
				// the process died inside a case
				cls, inSh := classifyCrash(res.stderr)
				if !inSh {
					mu.Lock()
					trouble = "a worker crashed outside mvdan/sh code: " + kit.Clip(tailOf(res.stderr, 3000), 3000)
					mu.Unlock()
					return
				}
				c := res.crashed
				c.Class, c.Key, c.Detail = cls, cls+":"+c.Kind, kit.Clip(crashSummary(res.stderr), 1500)
				v := &worldb.Verdict{Idx: c.Idx, OK: false, Class: c.Class, Key: c.Key, Detail: c.Detail, Kind: c.Kind, Case: c, NonTrivial: true}
				if cls == "crash-in-interpreter" && soloPanics(c, timeout) {
					// the same statements crash the interpreter when run plainly
					// in sequence: not caused by what the property is about
					v = &worldb.Verdict{Idx: c.Idx, OK: true, Kind: c.Kind, Skipped: "interpreter panic that also happens when the statements run plainly in sequence (outside the claimed properties): " + kit.Clip(crashSummary(res.stderr), 160)}
					mu.Lock()
					all = append(all, v)
					mu.Unlock()
				} else {
					mu.Lock()
					crashes = append(crashes, v)
					mu.Unlock()
				}
				// continue after the crashed index
				pos := -1
				for i, idx := range part {
					if idx == c.Idx {
						pos = i
					}
				}
				if pos < 0 {
					return
				}
				part = part[pos+1:]
			}
		}(parts[w])
	}
	wg.Wait()
	sort.Slice(all, func(i, j int) bool { return all[i].Idx < all[j].Idx })
	return
}

// soloPanics re-runs a crashed case's statements plainly in sequence, in a
// fresh worker, and reports whether the interpreter panics there too.
func soloPanics(c *worldb.Case, timeout time.Duration) bool {
	sc := *c
	sc.Solo = true
	res := runWorker(&worldb.Job{Property: c.Property, Cases: []*worldb.Case{&sc}}, 1, timeout)
	if res.crashed != nil {
		_, inSh := classifyCrash(res.stderr)
		return inSh
	}
	for _, v := range res.verdicts {
		if v.Class == "solo-panic" {
			return true
		}
	}
	return false
}

func tailOf(s string, n int) string {
	if len(s) <= n {
		return s
	}
	return s[len(s)-n:]
}

// classifyCrash decides whether a dead worker died in interpreter code.
func classifyCrash(stderr string) (class string, inSh bool) {
	switch {
	case strings.Contains(stderr, "fatal error: concurrent map"):
		return "fatal-concurrent-map-access", true
	case strings.Contains(stderr, "mvdan.cc/sh/v3/") && (strings.Contains(stderr, "panic:") || strings.Contains(stderr, "fatal error:")):
		// a crash whose stack runs through the interpreter
		if i := strings.Index(stderr, "goroutine "); i >= 0 {
			first := stderr[i:]
			if j := strings.Index(first, "\n\n"); j >= 0 {
				first = first[:j]
			}
			if strings.Contains(first, "mvdan.cc/sh/v3/") {
				return "crash-in-interpreter", true
			}
		}
	}
	return "", false
}

func crashSummary(stderr string) string {
	for _, marker := range []string{"fatal error:", "panic:"} {
		if i := strings.Index(stderr, marker); i >= 0 {
			return stderr[i:]
		}
	}
	return tailOf(stderr, 1500)
}

// evalCases evaluates explicit cases, one fresh process each, in parallel.
func evalCases(prop string, cases []*worldb.Case) []*worldb.Verdict {
	out := make([]*worldb.Verdict, len(cases))
	var wg sync.WaitGroup
	sem := make(chan struct{}, runtime.NumCPU())
	for i, c := range cases {
		wg.Add(1)
		go func(i int, c *worldb.Case) {
			defer wg.Done()
			sem <- struct{}{}
			defer func() { <-sem }()
			res := runWorker(&worldb.Job{Property: prop, Cases: []*worldb.Case{c}}, runtime.NumCPU(), 2*time.Minute)
			if len(res.verdicts) > 0 {
				out[i] = res.verdicts[0]
				return
			}
			if res.crashed != nil {
				if cls, inSh := classifyCrash(res.stderr); inSh {
					cc := *res.crashed
					cc.Class, cc.Key, cc.Detail = cls, cls+":"+cc.Kind, kit.Clip(crashSummary(res.stderr), 1500)
					out[i] = &worldb.Verdict{Idx: c.Idx, Class: cc.Class, Key: cc.Key, Detail: cc.Detail, Case: &cc}
				}
			}
		}(i, c)
	}
	wg.Wait()
	return out
}

// ------------------------------------------------------------------ check

func doCheck(prop string, def propDef, tier string) int {
	start := time.Now()
	root := kit.RootSeed(20260921)
	n := def.quick
	if tier == "thorough" {
		n = def.thor
	}
	if s := os.Getenv("VERIF_NCASES"); s != "" {
		n, _ = strconv.Atoi(s)
	}
	nw := runtime.NumCPU()
	fmt.Printf("VERIF_SEED=%d property=%s tier=%s world=B cases=%d workers=%d\n", root, prop, tier, n, nw)

	// ---- determinism gate: same cases, separate processes, GOMAXPROCS 1/4/16
	ng := 30
	if tier == "thorough" {
		ng = 300
	}
	ng = min(ng, n)
	gateIdx := make([]int, ng)
	gr := kit.NewRand(root ^ 0x67617465)
	for i := range gateIdx {
		gateIdx[i] = gr.Intn(n)
	}
	sort.Ints(gateIdx)
	var gate [3][]*worldb.Verdict
	var gwg sync.WaitGroup
	for gi, gmp := range []int{1, 4, 16} {
		gwg.Add(1)
		go func(gi, gmp int) {
			defer gwg.Done()
			// split over a few processes so that the thorough gate is quick
			parts := 1
			if ng > 60 {
				parts = 5
			}
			var all []*worldb.Verdict
			var pwg sync.WaitGroup
			var mu sync.Mutex
			for p := 0; p < parts; p++ {
				var part []int
				for i := p; i < len(gateIdx); i += parts {
					part = append(part, gateIdx[i])
				}
				pwg.Add(1)
				go func(part []int) {
					defer pwg.Done()
					res := runWorker(&worldb.Job{Property: prop, Tier: tier, Root: root, Indexes: part}, gmp, 20*time.Minute)
					mu.Lock()
					all = append(all, res.verdicts...)
					mu.Unlock()
				}(part)
			}
			pwg.Wait()
			sort.SliceStable(all, func(i, j int) bool { return all[i].Idx < all[j].Idx })
			gate[gi] = all
		}(gi, gmp)
	}
	gwg.Wait()
	sig := func(vs []*worldb.Verdict) string {
		var sb strings.Builder
		for _, v := range vs {
			// race reports are once-per-process, so OK/class of C32 race cases
			// depends on which case of the process showed a race first; the
			// event log digest does not.
			fmt.Fprintf(&sb, "%d %s %d %s\n", v.Idx, v.Digest, v.Steps, v.Skipped)
		}
		return sb.String()
	}
	if len(gate[0]) < ng*9/10 || sig(gate[0]) != sig(gate[1]) || sig(gate[0]) != sig(gate[2]) {
		fmt.Printf("determinism gate FAILED: event logs differ between processes (GOMAXPROCS 1/4/16), %d/%d/%d verdicts\n", len(gate[0]), len(gate[1]), len(gate[2]))
		for _, other := range []int{1, 2} {
			a, b := strings.Split(sig(gate[0]), "\n"), strings.Split(sig(gate[other]), "\n")
			for i := 0; i < len(a) && i < len(b); i++ {
				if a[i] != b[i] {
					fmt.Printf("  first difference (process 0 vs %d): %q vs %q\n", other, a[i], b[i])
					break
				}
			}
		}
		return 2
	}
	fmt.Printf("determinism gate: %d sampled cases x 3 processes (GOMAXPROCS 1/4/16) byte-identical event logs\n", len(gate[0]))

	// ---- main batch
	indexes := make([]int, n)
	for i := range indexes {
		indexes[i] = i
	}
	timeout := 15 * time.Minute
	if tier == "thorough" {
		timeout = 3 * time.Hour
	}
	verdicts, crashes, trouble := runIndexes(prop, tier, root, indexes, nw, timeout)
	if trouble != "" {
		fmt.Println("check trouble:", trouble)
		return 2
	}
	verdicts = append(verdicts, crashes...)
	if prop == "C31" {
		// the one part of C31 that is NOT simulated: real child processes
		// through DefaultExecHandler (labelled so in the evidence)
		pv, summary, err := runRealProbe()
		if err != nil {
			fmt.Println("check trouble: real-process probe:", err)
			return 2
		}
		verdicts = append(verdicts, pv...)
		probeSummary = summary
		n += len(pv)
	}
	return report(prop, def, tier, root, start, verdicts, n)
}

var probeSummary any

// runRealProbe runs TestRealProbe of the worker binary in its own process
// and turns its results into verdicts.
func runRealProbe() ([]*worldb.Verdict, any, error) {
	out := filepath.Join(scratch, "probe.json")
	// bin/realprobe is built WITHOUT the verif tag: it is the interpreter as
	// shipped, none of the hook files compiled in
	cmd := exec.Command(filepath.Join(verif, "bin", "realprobe"), out)
	if b, err := cmd.CombinedOutput(); err != nil {
		return nil, nil, fmt.Errorf("%v: %s", err, kit.Clip(string(b), 1500))
	}
	b, err := os.ReadFile(out)
	if err != nil {
		return nil, nil, err
	}
	var rs []worldb.ProbeResult
	if err := json.Unmarshal(b, &rs); err != nil {
		return nil, nil, err
	}
	var vs []*worldb.Verdict
	var sum []string
	for i, r := range rs {
		v := &worldb.Verdict{Idx: 1000000 + i, OK: r.OK, Kind: "real-probe:" + r.Name, Strategy: "real-processes(not simulated)", Runs: r.Attempts, NonTrivial: true,
			Hash: kit.Hash64([]byte("real-probe"), []byte(r.Name)), Digest: "real-probe:" + r.Name, Cancelled: true, FaultFree: false}
		if r.Class == "harness" {
			v.Skipped = "harness: " + r.Detail
		} else if !r.OK {
			v.Class, v.Key, v.Detail = r.Class, "real:"+r.Name, r.Detail
			v.Case = &worldb.Case{Property: "C31", Idx: v.Idx, Kind: "real-probe:" + r.Name, Prog: []string{r.Program}, CancelStep: -1, Class: v.Class, Key: v.Key, Detail: v.Detail}
		}
		vs = append(vs, v)
		sum = append(sum, fmt.Sprintf("%s: ok=%v %.2fs after cancel, err=%q, attempts=%d", r.Name, r.OK, r.Seconds, r.Err, r.Attempts))
	}
	return vs, sum, nil
}

type tally struct {
	cases, judged, skipped, nontrivial       int
	runs                                     int64
	steps, switches                          int64
	simNS                                    int64
	faults, probes, strategies, kinds, skips kit.Counter
	faultFree, faulty, cancelled             int
	distinct                                 map[uint64]bool
	digests                                  map[string]bool
	samples                                  []any
	maxLive                                  int
}

func report(prop string, def propDef, tier string, root uint64, start time.Time, verdicts []*worldb.Verdict, n int) int {
	findings, err := kit.LoadFindings()
	if err != nil {
		fmt.Println(err)
		return 2
	}
	t := tally{faults: kit.Counter{}, probes: kit.Counter{}, strategies: kit.Counter{}, kinds: kit.Counter{}, skips: kit.Counter{}, distinct: map[uint64]bool{}, digests: map[string]bool{}}
	var viols []*worldb.Verdict
	for _, v := range verdicts {
		t.cases++
		t.runs += int64(v.Runs)
		if v.Skipped != "" {
			t.skipped++
			t.skips.Add(strings.SplitN(v.Skipped, ":", 2)[0], 1)
			continue
		}
		t.judged++
		t.steps += int64(v.Steps)
		t.switches += int64(v.Switches)
		t.simNS += v.SimNS
		t.maxLive = max(t.maxLive, v.MaxLive)
		for _, f := range v.Faults {
			t.faults.Add(f, 1)
		}
		if v.Cancelled {
			t.faults.Add("context-cancellation", 1)
			t.cancelled++
		}
		for k, c := range v.Probes {
			t.probes.Add(k, c)
		}
		t.strategies.Add(v.Strategy, 1)
		t.kinds.Add(v.Kind, 1)
		if v.FaultFree && !v.Cancelled {
			t.faultFree++
		} else {
			t.faulty++
		}
		if v.NonTrivial {
			t.nontrivial++
			t.distinct[v.Hash] = true
		}
		t.digests[v.Digest] = true
		if v.Sample != "" && len(t.samples) < 10 {
			t.samples = append(t.samples, v.Sample)
		}
		if !v.OK {
			viols = append(viols, v)
		}
	}
	if t.cases < n*95/100 {
		fmt.Printf("check trouble: only %d of %d cases produced a verdict\n", t.cases, n)
		return 2
	}
	knownSeen := map[string]int{}
	byKey := map[string][]*worldb.Verdict{}
	var order []string
	for _, v := range viols {
		if _, ok := kit.KnownKey(findings, prop, v.Key); ok {
			knownSeen[v.Key]++
			continue
		}
		if _, ok := byKey[v.Key]; !ok {
			order = append(order, v.Key)
		}
		byKey[v.Key] = append(byKey[v.Key], v)
	}
	var kk []string
	for k := range knownSeen {
		kk = append(kk, k)
	}
	sort.Strings(kk)
	for _, k := range kk {
		f, _ := kit.KnownKey(findings, prop, k)
		fmt.Printf("KNOWN-FINDING: property=%s %s (seen %d times in this run)\n", prop, strings.TrimPrefix(f.Text, "property="+prop+" "), knownSeen[k])
	}
	exit := 0
	nviol := 0
	for _, k := range order {
		nviol += len(byKey[k])
	}
	maxReport := 4
	if s := os.Getenv("VERIF_MAX_REPORT"); s != "" {
		maxReport, _ = strconv.Atoi(s)
	}
	for i, k := range order {
		vs := byKey[k]
		fmt.Printf("violation key=%s class=%s count=%d\n", k, vs[0].Class, len(vs))
		if i >= maxReport {
			continue
		}
		c := minimise(prop, vs[0].Case)
		path, err := kit.WriteReplay(prop, c)
		if err != nil {
			fmt.Println("cannot write replay:", err)
			return 2
		}
		fmt.Printf("  kind=%s ctx=%s cancel_step=%d pipe_cap=%d faults=%v tape=%v\n  program parts: setup=%q s=%q t=%q prog=%q sub=%q history=%d\n  detail=%s\n", c.Kind, c.Ctx, c.CancelStep, c.PipeCap, c.Faults, clipTape(c.Strategy.Tape), c.Setup, c.S, c.T, c.Prog, c.Sub, len(c.History), kit.Clip(c.Detail, 900))
		fmt.Printf("VIOLATION property=%s replay=%s\n", prop, path)
		exit = 1
	}
	if t.judged > 0 && t.skipped*4 > t.cases {
		fmt.Printf("check trouble: %d of %d cases could not be judged: %v\n", t.skipped, t.cases, t.skips)
		if exit == 0 {
			exit = 2
		}
	}
	wall := time.Since(start)
	cov := map[string]any{
		"evaluations":               t.judged,
		"distinct_nontrivial":       len(t.distinct),
		"rule":                      def.rule,
		"samples":                   t.samples,
		"cases_generated":           t.cases,
		"cases_not_judged":          t.skipped,
		"not_judged_reasons":        t.skips,
		"simulated_runs":            t.runs,
		"scheduling_steps":          t.steps,
		"context_switches":          t.switches,
		"max_live_goroutines":       t.maxLive,
		"simulated_time_seconds":    float64(t.simNS) / 1e9,
		"distinct_event_logs":       len(t.digests),
		"fault_kinds_fired":         t.faults,
		"fault_free_cases":          t.faultFree,
		"faulty_or_cancelled_cases": t.faulty,
		"reach_probes":              t.probes,
		"strategies":                t.strategies,
		"case_kinds":                t.kinds,
		"known_findings_seen":       knownSeen,
		"determinism_gate":          "sampled cases re-run in 3 processes at GOMAXPROCS 1/4/16; event logs byte-identical",
		"real_process_probe(NOT simulated; C31 only)": probeSummary,
		"components": map[string]string{
			"syntax, expand, pattern, interp (runner, builtins, vars, traps, wait, read, redirections)": "real, built with -race and -tags verif",
			"goroutine scheduling":                 "simulated: controller inside a testing/synctest bubble picks every step from the seed",
			"clock":                                "simulated: synctest fake clock",
			"os.Pipe, FIFOs":                       "stub: SimPipe / SimFifo",
			"files behind redirections, cd, globs": "stub: in-memory files via the OpenHandler/StatHandler/ReadDirHandler2/AccessHandler seams",
			"external commands":                    "stub: simulated commands via the ExecHandlers seam (sleep, stubborn, cat, emit, yes, drain, head1, fail, fatal)",
			"newStdinFile copier goroutine, DefaultExecHandler signalling": "not exercised",
		},
	}
	kit.Rates(cov, t.runs, wall)
	ev := &kit.Evidence{PropertyID: prop, Tier: tier, Seed: int64(root), Level: def.level, Coverage: cov, Assumptions: def.assume, WallS: wall.Seconds(), Violations: nviol}
	if err := kit.WriteEvidence(ev); err != nil {
		fmt.Println("cannot write evidence:", err)
		return 2
	}
	fmt.Printf("property=%s tier=%s cases=%d judged=%d skipped=%d simulated_runs=%d steps=%d switches=%d sim_time=%.0fs distinct_nontrivial=%d violations=%d known=%d wall=%.1fs\n",
		prop, tier, t.cases, t.judged, t.skipped, t.runs, t.steps, t.switches, float64(t.simNS)/1e9, len(t.distinct), nviol, len(knownSeen), wall.Seconds())
	return exit
}

func clipTape(t []int) string {
	if len(t) <= 40 {
		return fmt.Sprint(t)
	}
	return fmt.Sprintf("%v…(+%d)", t[:40], len(t)-40)
}

// ------------------------------------------------------------------ replay

func doReplay(prop, path string) int {
	b, err := os.ReadFile(path)
	if err != nil {
		fmt.Println(err)
		return 2
	}
	var c worldb.Case
	if err := json.Unmarshal(b, &c); err != nil {
		fmt.Println(err)
		return 2
	}
	if strings.HasPrefix(c.Kind, "real-probe:") {
		pv, _, err := runRealProbe()
		if err != nil {
			fmt.Println("replay trouble:", err)
			return 2
		}
		for _, v := range pv {
			if v.Kind == c.Kind && !v.OK && v.Skipped == "" {
				fmt.Printf("replayed: class=%s key=%s\n  detail=%s\n", v.Class, v.Key, v.Detail)
				fmt.Printf("VIOLATION property=%s replay=%s\n", prop, path)
				return 1
			}
		}
		fmt.Println("replay diverged: the real-process probe case passed this time")
		return 2
	}
	vs := evalCases(prop, []*worldb.Case{&c})
	v := vs[0]
	if v == nil {
		fmt.Println("replay diverged: the worker produced no verdict")
		return 2
	}
	if v.OK || v.Skipped != "" {
		fmt.Printf("replay diverged: no violation reproduced (recorded class=%s key=%s; skipped=%q)\n", c.Class, c.Key, v.Skipped)
		return 2
	}
	if v.Class != c.Class || v.Key != c.Key {
		fmt.Printf("replay diverged: recorded class=%s key=%s, observed class=%s key=%s\n", c.Class, c.Key, v.Class, v.Key)
		return 2
	}
	fmt.Printf("replayed: class=%s key=%s\n  detail=%s\n", v.Class, v.Key, kit.Clip(v.Detail, 900))
	fmt.Printf("VIOLATION property=%s replay=%s\n", prop, path)
	return 1
}

// ------------------------------------------------------------------ minimisation

// minimise drops program parts, faults and schedule choices while a
// violation with the same key persists; every candidate runs in a fresh
// process. Time-boxed.
func minimise(prop string, c *worldb.Case) *worldb.Case {
	deadline := time.Now().Add(90 * time.Second)
	if os.Getenv("VERIF_NO_MIN") != "" { // development aid
		return c
	}
	best := *c
	key := c.Key
	// accept returns the reproduced case (with its recorded tape) or nil
	try := func(cands []*worldb.Case) *worldb.Case {
		if len(cands) == 0 || time.Now().After(deadline) {
			return nil
		}
		vs := evalCases(prop, cands)
		for _, v := range vs {
			if v != nil && !v.OK && v.Key == key && v.Case != nil {
				return v.Case
			}
		}
		return nil
	}
	// first make sure it reproduces at all in a fresh process
	if got := try([]*worldb.Case{&best}); got != nil {
		best = *got
	} else {
		return c
	}
	type listRef struct {
		get func(*worldb.Case) []string
		set func(*worldb.Case, []string)
	}
	lists := []listRef{
		{func(c *worldb.Case) []string { return c.S }, func(c *worldb.Case, l []string) { c.S = l }},
		{func(c *worldb.Case) []string { return c.T }, func(c *worldb.Case, l []string) { c.T = l }},
		{func(c *worldb.Case) []string { return c.Setup }, func(c *worldb.Case, l []string) { c.Setup = l }},
		{func(c *worldb.Case) []string { return c.Prog }, func(c *worldb.Case, l []string) { c.Prog = l }},
		{func(c *worldb.Case) []string { return c.Sub }, func(c *worldb.Case, l []string) { c.Sub = l }},
	}
	for hi := range best.History {
		hi := hi
		lists = append(lists, listRef{
			func(c *worldb.Case) []string {
				if hi < len(c.History) {
					return c.History[hi].Lines
				}
				return nil
			},
			func(c *worldb.Case, l []string) {
				if hi < len(c.History) {
					h := append([]worldb.HistProg{}, c.History...)
					h[hi].Lines = l
					c.History = h
				}
			}})
	}
	for changed := true; changed && !time.Now().After(deadline); {
		changed = false
		// whole history programs
		var cands []*worldb.Case
		for i := range best.History {
			cc := best
			cc.History = append(append([]worldb.HistProg{}, best.History[:i]...), best.History[i+1:]...)
			cands = append(cands, &cc)
		}
		// single faults
		for i := range best.Faults {
			cc := best
			cc.Faults = append(append([]worldb.Fault{}, best.Faults[:i]...), best.Faults[i+1:]...)
			cands = append(cands, &cc)
		}
		for _, lr := range lists {
			l := lr.get(&best)
			for i := range l {
				cc := best
				lr.set(&cc, append(append([]string{}, l[:i]...), l[i+1:]...))
				cands = append(cands, &cc)
			}
		}
		// each candidate is tried with the recorded tape; dropping parts
		// shifts the schedule, so also with a plain sequential schedule
		var both []*worldb.Case
		for _, cc := range cands {
			both = append(both, cc)
			sq := *cc
			sq.Strategy = worldb.Strategy{Kind: "sequential"}
			both = append(both, &sq)
		}
		if got := try(both); got != nil {
			best, changed = *got, true
		}
	}
	// schedule: all-sequential, then zero halves, then truncate
	tape := best.Strategy.Tape
	var cands []*worldb.Case
	mk := func(t []int) *worldb.Case {
		cc := best
		cc.Strategy = worldb.Strategy{Kind: "tape", Tape: t}
		return &cc
	}
	cands = append(cands, mk(nil))
	for gran := len(tape) / 2; gran >= 1; gran /= 2 {
		for i := 0; i+gran <= len(tape); i += gran {
			t2 := append([]int{}, tape...)
			for j := i; j < i+gran; j++ {
				t2[j] = 0
			}
			cands = append(cands, mk(t2))
		}
		if len(cands) > 64 {
			break
		}
	}
	if got := try(cands); got != nil {
		best = *got
	}
	// cancellation step: lower it
	for best.CancelStep > 0 && !time.Now().After(deadline) {
		var cs []*worldb.Case
		for _, k := range []int{0, best.CancelStep / 2, best.CancelStep - 1} {
			cc := best
			cc.CancelStep = k
			cs = append(cs, &cc)
		}
		got := try(cs)
		if got == nil || got.CancelStep >= best.CancelStep {
			break
		}
		best = *got
	}
	return &best
}
