package main

import (
	"bytes"
	"time"
)

// minimise shrinks the input (lines, then bytes), then the fault/plan, of a
// violation while a violation of the same class persists. It is time-boxed;
// the best candidate so far is returned.
func minimise(def *checkDef, v Violation) Violation {
	deadline := time.Now().Add(25 * time.Second)
	best := v
	class := v.Class

	// try runs the candidate; for a changed input the recorded plan may no
	// longer fit, so a small family of plans is searched as well.
	try := func(rep Replay, searchPlans bool) *Violation {
		if time.Now().After(deadline) {
			return nil
		}
		if nv := def.replay(&rep); nv != nil && nv.Class == class {
			return nv
		}
		if !searchPlans || rep.Mode == "reuse" || rep.Mode == "interactive" || rep.Mode == "printer-reuse" {
			return nil
		}
		n := len(rep.input())
		cands := []Plan{oneByte(n)}
		e := OneShot()
		e.EOFWithData = true
		cands = append(cands, e)
		if n <= 400 {
			for k := 1; k < n; k++ {
				cands = append(cands, singleSplit(k))
			}
		}
		for _, p := range cands {
			p.TruncAt, p.ErrAt = -1, -1
			if rep.Plan.TruncAt >= 0 {
				p.TruncAt = min(rep.Plan.TruncAt, n)
			}
			if rep.Plan.ErrAt >= 0 {
				p.ErrAt, p.ErrWithData = min(rep.Plan.ErrAt, n), rep.Plan.ErrWithData
			}
			rep2 := rep
			rep2.Plan = p
			if nv := def.replay(&rep2); nv != nil && nv.Class == class {
				return nv
			}
			if time.Now().After(deadline) {
				return nil
			}
		}
		return nil
	}

	// Phase 1: drop whole lines.
	input := best.Rep.input()
	lines := bytes.SplitAfter(input, []byte("\n"))
	for gran := len(lines) / 2; gran >= 1 && len(lines) > 1; {
		shrunk := false
		for i := 0; i+gran <= len(lines); i++ {
			cand := append(append([][]byte{}, lines[:i]...), lines[i+gran:]...)
			rep := best.Rep
			rep.setInput(bytes.Join(cand, nil))
			removedAt := len(bytes.Join(lines[:i], nil))
			shiftFaults(&rep.Plan, removedAt, len(bytes.Join(lines[i:i+gran], nil)))
			if nv := try(rep, true); nv != nil {
				best, lines, shrunk = *nv, cand, true
				i--
			}
			if time.Now().After(deadline) {
				break
			}
		}
		if !shrunk || gran > len(lines) {
			gran /= 2
		}
		if time.Now().After(deadline) {
			break
		}
	}
	// Phase 2: drop byte ranges.
	input = best.Rep.input()
	for gran := len(input) / 2; gran >= 1 && len(input) > 1; {
		shrunk := false
		for i := 0; i+gran <= len(input); i++ {
			cand := append(append([]byte{}, input[:i]...), input[i+gran:]...)
			rep := best.Rep
			rep.setInput(cand)
			shiftFaults(&rep.Plan, i, gran)
			if nv := try(rep, true); nv != nil {
				best, input, shrunk = *nv, cand, true
				i--
			}
			if time.Now().After(deadline) {
				break
			}
		}
		if !shrunk || gran > len(input) {
			gran /= 2
		}
		if time.Now().After(deadline) {
			break
		}
	}
	// Phase 3: shrink history (reuse modes).
	for i := 0; i < len(best.Rep.History); i++ {
		rep := best.Rep
		rep.History = append(append([]HistStep{}, rep.History[:i]...), rep.History[i+1:]...)
		if nv := try(rep, false); nv != nil {
			best = *nv
			i--
		}
	}
	// Phase 4: simplify the plan: drop flags, then coalesce chunks.
	if best.Rep.Plan.EOFWithData {
		rep := best.Rep
		rep.Plan.EOFWithData = false
		if nv := try(rep, false); nv != nil {
			best = *nv
		}
	}
	if best.Rep.Plan.LineMode {
		rep := best.Rep
		rep.Plan.LineMode = false
		if nv := try(rep, false); nv != nil {
			best = *nv
		}
	}
	for changed := true; changed && !time.Now().After(deadline); {
		changed = false
		ch := best.Rep.Plan.Chunks
		for i := 0; i < len(ch); i++ {
			var cand []int
			if ch[i] == 0 || i == len(ch)-1 {
				cand = append(append([]int{}, ch[:i]...), ch[i+1:]...) // drop zero read / last chunk
			} else {
				cand = append(append([]int{}, ch[:i]...), ch[i]+ch[i+1])
				cand = append(cand, ch[i+2:]...)
			}
			rep := best.Rep
			rep.Plan.Chunks = cand
			if nv := try(rep, false); nv != nil {
				best, changed = *nv, true
				break
			}
		}
	}
	best.Rep.Plan.Family = "minimised"
	// make sure what is reported replays exactly
	if nv := def.replay(&best.Rep); nv != nil {
		nv.Rep.Plan.Family = "minimised"
		return *nv
	}
	return v
}

// shiftFaults keeps fault offsets pointing at the same bytes after n bytes
// at offset at were removed from the input.
func shiftFaults(p *Plan, at, n int) {
	adj := func(k int) int {
		switch {
		case k < 0 || k <= at:
			return k
		case k >= at+n:
			return k - n
		}
		return at
	}
	p.TruncAt = adj(p.TruncAt)
	p.ErrAt = adj(p.ErrAt)
}
