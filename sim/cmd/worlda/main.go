// worlda is the stream simulator (World A of DESIGN.md): it drives the real
// lexer/parser/printer of mvdan.cc/sh/v3/syntax through a simulated
// io.Reader / io.Writer whose every result (short reads, zero reads, EOF
// together with data, truncation, injected errors) is decided by a plan
// drawn from one seed, and checks C07, C08 and C10.
package main

import (
	"bufio"
	"encoding/base64"
	"encoding/json"
	"flag"
	"fmt"
	"os"
	"path/filepath"
	"runtime"
	"sort"
	"strconv"
	"strings"
	"sync"
	"sync/atomic"
	"time"

	"verifsim/kit"
)

type CorpusEntry struct {
	Src   string   `json:"src"`
	Valid []string `json:"valid"`
	From  string   `json:"from"`
}

func (e CorpusEntry) validIn(lang string) bool {
	for _, v := range e.Valid {
		if v == lang {
			return true
		}
	}
	return false
}

func loadCorpus() ([]CorpusEntry, error) { return loadEntries("corpus.jsonl") }

func loadEntries(name string) ([]CorpusEntry, error) {
	f, err := os.Open(filepath.Join(kit.VerifDir(), "corpus", name))
	if err != nil {
		return nil, err
	}
	defer f.Close()
	var out []CorpusEntry
	sc := bufio.NewScanner(f)
	sc.Buffer(make([]byte, 1<<20), 16<<20)
	for sc.Scan() {
		var e CorpusEntry
		if err := json.Unmarshal(sc.Bytes(), &e); err != nil {
			return nil, err
		}
		out = append(out, e)
	}
	return out, sc.Err()
}

// Replay is the self-contained description of one failing execution.
type Replay struct {
	Property string         `json:"property"`
	World    string         `json:"world"`
	Seed     uint64         `json:"seed"`
	Run      int            `json:"run"`
	Mode     string         `json:"mode"`
	Cfg      Cfg            `json:"cfg"`
	InputB64 string         `json:"input_b64"`
	InputQ   string         `json:"input_quoted"`
	Plan     Plan           `json:"plan"`
	History  []HistStep     `json:"history,omitempty"`
	Extra    map[string]any `json:"extra,omitempty"`
	Class    string         `json:"class"`
	Key      string         `json:"key"`
	Detail   string         `json:"detail"`
}

func (r *Replay) input() []byte {
	b, _ := base64.StdEncoding.DecodeString(r.InputB64)
	return b
}

func (r *Replay) setInput(b []byte) {
	r.InputB64 = base64.StdEncoding.EncodeToString(b)
	r.InputQ = strconv.Quote(string(b))
}

// Violation is a failed oracle together with everything needed to repeat it.
type Violation struct {
	Class  string
	Key    string
	Detail string
	Rep    Replay
}

// Stats is what a worker measured; merged deterministically.
type Stats struct {
	Evals     int64
	Distinct  map[uint64]struct{} // per item; items are distinct inputs
	DistinctN int64
	Probes    kit.Counter
	Faults    kit.Counter
	Families  kit.Counter
	Samples   []any
	Info      kit.Counter // non-gating observations
}

func newStats() *Stats {
	return &Stats{Distinct: map[uint64]struct{}{}, Probes: kit.Counter{}, Faults: kit.Counter{}, Families: kit.Counter{}, Info: kit.Counter{}}
}

func (s *Stats) merge(o *Stats) {
	s.Evals += o.Evals
	s.DistinctN += int64(len(o.Distinct)) + o.DistinctN
	s.Probes.Merge(o.Probes)
	s.Faults.Merge(o.Faults)
	s.Families.Merge(o.Families)
	s.Info.Merge(o.Info)
	for _, x := range o.Samples {
		if len(s.Samples) < 12 {
			s.Samples = append(s.Samples, x)
		}
	}
}

// Item is one unit of work: an input plus the per-item seed.
type Item struct {
	Idx    int
	Src    []byte
	Origin string
	Langs  []string // variants to run it under
	Valid  map[string]bool
	Seed   uint64
}

type ItemResult struct {
	Idx    int
	Stats  *Stats
	Viols  []Violation
	Digest uint64 // event-log digest for the determinism gate
}

type checkDef struct {
	id    string
	level string
	run   func(it *Item, tier string, st *Stats) ([]Violation, uint64)
	// replay re-executes a recorded violation; it returns the violation seen (or nil).
	replay func(rep *Replay) *Violation
	rule   string
	assume []string
}

var checks = map[string]*checkDef{}

// ------------------------------------------------------------------ watchdog

type wdSlot struct {
	start atomic.Int64
	desc  atomic.Value // string
	item  atomic.Pointer[Item]
	tier  string
}

var wdSlots []*wdSlot

func watchdog(prop string, limit time.Duration) {
	for {
		time.Sleep(time.Second)
		now := time.Now().UnixNano()
		for _, s := range wdSlots {
			st := s.start.Load()
			if st != 0 && time.Duration(now-st) > limit {
				d, _ := s.desc.Load().(string)
				fmt.Fprintf(os.Stderr, "WATCHDOG: a single simulated run exceeded %v: %s\n", limit, d)
				// If the stuck worker is inside the syntax package, the
				// parser or printer does not return under a legal
				// schedule of reads and writes: that is a violation
				// (nothing the property promises can hold), reported with
				// a replay of the whole item. Anything else is trouble
				// of the harness or the machine: exit 2.
				buf := make([]byte, 4<<20)
				buf = buf[:runtime.Stack(buf, true)]
				it := s.item.Load()
				if it != nil && stuckInSyntax(string(buf)) {
					rep := Replay{Property: prop, World: "A", Seed: it.Seed, Run: it.Idx, Mode: "item-hang", Class: "hang-in-syntax-package",
						Detail: "a Parse/StmtsSeq/InteractiveSeq/Print call of this item did not return", Extra: map[string]any{"origin": it.Origin, "langs": it.Langs, "tier": s.tier}}
					rep.setInput(it.Src)
					rep.Key = "hang:" + kit.Digest(it.Src)
					if path, err := kit.WriteReplay(prop, rep); err == nil {
						fmt.Printf("violation class=%s key=%s\n  item=%d (%s)\n  input=%s\n  stack of the stuck goroutine:\n%s\n", rep.Class, rep.Key, it.Idx, it.Origin, kit.Clip(rep.InputQ, 600), kit.Clip(stuckStack(string(buf)), 1500))
						fmt.Printf("VIOLATION property=%s replay=%s\n", prop, path)
						os.Exit(1)
					}
				}
				os.Exit(2)
			}
		}
	}
}

// stuckInSyntax reports whether a worker goroutine is inside mvdan.cc/sh/v3/syntax.
func stuckInSyntax(stacks string) bool { return stuckStack(stacks) != "" }

func stuckStack(stacks string) string {
	for _, g := range strings.Split(stacks, "\n\n") {
		if strings.Contains(g, "mvdan.cc/sh/v3/syntax.") && (strings.Contains(g, "main.runC0") || strings.Contains(g, "main.runC1") || strings.Contains(g, "main.replayItem")) {
			var keep []string
			for _, l := range strings.Split(g, "\n") {
				if !strings.HasPrefix(l, "\t") {
					keep = append(keep, l)
				}
			}
			if len(keep) > 14 {
				keep = keep[:14]
			}
			return strings.Join(keep, "\n")
		}
	}
	return ""
}

// ------------------------------------------------------------------ items

func buildItems(prop, tier string, root uint64) ([]*Item, error) {
	corpus, err := loadCorpus()
	if err != nil {
		return nil, err
	}
	var items []*Item
	seenInput := map[uint64]bool{}
	add := func(src []byte, origin string, langs []string, valid map[string]bool) {
		// items are distinct (input, variants) pairs, so that per-item
		// distinct counts can be summed
		h := kit.Hash64(src, []byte(strings.Join(langs, ",")))
		if seenInput[h] {
			return
		}
		seenInput[h] = true
		it := &Item{Idx: len(items), Src: src, Origin: origin, Langs: langs, Valid: valid}
		it.Seed = kit.RunSeed(root, prop, it.Idx)
		items = append(items, it)
	}
	for i, e := range corpus {
		valid := map[string]bool{}
		for _, v := range e.Valid {
			valid[v] = true
		}
		add([]byte(e.Src), fmt.Sprintf("corpus[%d] %s", i, e.From), allLangs, valid)
	}
	// Line-break variants of corpus entries, recorded by cmd/harvest as valid
	// bash programs (accepted by the parser at harvest time AND by "bash -n").
	// The recorded validity is independent of the parser under test.
	if prop == "C10" || prop == "C08" {
		vs, err := loadEntries("variants.jsonl")
		if err != nil {
			return nil, err
		}
		vr := kit.NewRand(kit.RunSeed(root, prop+"/variants", 0))
		for i, e := range vs {
			if prop == "C08" && tier != "thorough" && !vr.Chance(1, 10) {
				continue
			}
			add([]byte(e.Src), fmt.Sprintf("variants[%d] %s", i, e.From), []string{"bash"}, map[string]bool{"bash": true})
		}
	}
	// hand-written inputs for places the corpus and the generator are thin
	// on: line continuations inside parameter expansions, arithmetic and
	// test clauses, CRLF input, NUL bytes, multi-byte runes at line ends
	for i, src := range extraInputs {
		add([]byte(src), fmt.Sprintf("extra[%d]", i), allLangs, nil)
	}
	ngen := 400
	if tier == "thorough" {
		ngen = 24000
	}
	if s := os.Getenv("VERIF_NGEN"); s != "" {
		ngen, _ = strconv.Atoi(s)
	}
	gr := kit.NewRand(kit.RunSeed(root, prop+"/gen", 0))
	for i := 0; i < ngen; i++ {
		for _, lang := range allLangs {
			r := gr.Fork(lang)
			src := NewGen(r, lang).Program()
			origin := fmt.Sprintf("gen[%d] %s", i, lang)
			switch r.Intn(10) {
			case 0: // splice with a corpus entry
				e := corpus[r.Intn(len(corpus))]
				if len(e.Src) < 2000 {
					src = e.Src + "\n" + src
					origin += "+splice"
				}
			case 1: // corrupted stored byte -> arbitrary invalid input
				var how string
				src, how = mutate(r, src)
				origin += "+" + how
			}
			add([]byte(src), origin, []string{lang}, nil)
		}
	}
	// Line-break variants: a space of a valid program replaced by a newline,
	// kept when the program still parses. They put line breaks wherever the
	// grammar allows them (inside [[ ]], $(( )), array literals, after
	// operators, ...), which is where line-at-a-time feeding and
	// line-boundary cuts meet code that the usual one-statement-per-line
	// inputs never reach.
	nlr := kit.NewRand(kit.RunSeed(root, prop+"/nl", 0))
	nlWant := 600
	if tier == "thorough" {
		nlWant = 12000
	}
	nlBase := len(items)
	if prop == "C10" {
		// C10 is cheap per item: every single space of every short valid
		// input, exhaustively
		for bi := 0; bi < nlBase; bi++ {
			src := items[bi]
			if len(src.Src) == 0 || len(src.Src) > 300 || len(src.Langs) == 0 {
				continue
			}
			lang := src.Langs[bi%len(src.Langs)]
			if parseOneShot(Cfg{Lang: lang}, src.Src).Err != nil {
				continue
			}
			for j, b := range src.Src {
				if b != ' ' && b != '\t' {
					continue
				}
				v := append([]byte{}, src.Src...)
				v[j] = '\n'
				if parseOneShot(Cfg{Lang: lang}, v).Err != nil {
					continue
				}
				add(v, fmt.Sprintf("line break at %d of %s", j, src.Origin), []string{lang}, map[string]bool{lang: true})
			}
		}
		nlWant = 0
	}
	for tries := 0; tries < nlWant*6 && len(items)-nlBase < nlWant && nlBase > 0; tries++ {
		src := items[nlr.Intn(nlBase)]
		if len(src.Src) == 0 || len(src.Src) > 400 || len(src.Langs) == 0 {
			continue
		}
		lang := src.Langs[nlr.Intn(len(src.Langs))]
		if parseOneShot(Cfg{Lang: lang}, src.Src).Err != nil {
			continue
		}
		var spaces []int
		for j, b := range src.Src {
			if b == ' ' || b == '\t' {
				spaces = append(spaces, j)
			}
		}
		if len(spaces) == 0 {
			continue
		}
		v := append([]byte{}, src.Src...)
		for n := nlr.Range(1, 2); n > 0; n-- {
			v[spaces[nlr.Intn(len(spaces))]] = '\n'
		}
		if parseOneShot(Cfg{Lang: lang}, v).Err != nil {
			continue
		}
		add(v, "line-break variant of "+src.Origin, []string{lang}, map[string]bool{lang: true})
	}
	// Inputs padded so that their interesting bytes straddle the parser's
	// internal 1024-byte buffer boundary.
	npad := 150
	if tier == "thorough" {
		npad = 3000
	}
	pr := kit.NewRand(kit.RunSeed(root, prop+"/pad", 0))
	for i := 0; i < npad; i++ {
		var src string
		var langs []string
		var valid map[string]bool
		if pr.Chance(1, 2) {
			e := corpus[pr.Intn(len(corpus))]
			if len(e.Src) > 600 || len(e.Valid) == 0 {
				continue
			}
			src, langs = e.Src, e.Valid
			valid = map[string]bool{}
			for _, v := range e.Valid {
				valid[v] = true
			}
		} else {
			lang := kit.Pick(pr, allLangs)
			src, langs = NewGen(pr.Fork("g"), lang).Program(), []string{lang}
		}
		// place byte k of src at offset 1024*m: prefix length = 1024*m - k
		k := 0
		if len(src) > 0 {
			// prefer an interesting byte
			cands := []int{}
			for j := 0; j < len(src); j++ {
				if isInteresting(src[j]) {
					cands = append(cands, j)
				}
			}
			if len(cands) > 0 && pr.Chance(4, 5) {
				k = cands[pr.Intn(len(cands))] + pr.Range(-1, 2)
			} else {
				k = pr.Intn(len(src))
			}
			k = max(0, min(k, len(src)-1))
		}
		m := 1
		if pr.Chance(1, 5) {
			m = 2
		}
		plen := 1024*m - k
		pad := makePadding(pr, plen)
		add([]byte(pad+src), fmt.Sprintf("pad[%d] boundary@src+%d", i, k), langs, valid)
	}
	return items, nil
}

// makePadding returns n bytes of comments and blank lines ending in a newline
// (n >= 2), which any variant skips.
func makePadding(r *kit.Rand, n int) string {
	if n <= 0 {
		return ""
	}
	if n == 1 {
		return "\n"
	}
	var sb strings.Builder
	for sb.Len() < n {
		left := n - sb.Len()
		if left == 1 {
			sb.WriteString("\n")
			break
		}
		l := left
		if left > 80 && r.Chance(2, 3) {
			l = r.Range(2, 80)
			if left-l == 1 {
				l--
			}
		}
		sb.WriteString("#" + strings.Repeat("x", l-2) + "\n")
	}
	return sb.String()
}

// ------------------------------------------------------------------ driver

func main() {
	if len(os.Args) < 3 {
		fmt.Fprintln(os.Stderr, "usage: worlda <C07|C08|C10> <quick|thorough|gate> | worlda <id> --replay <file>")
		os.Exit(2)
	}
	prop := os.Args[1]
	def, ok := checks[prop]
	if !ok {
		fmt.Fprintln(os.Stderr, "unknown property", prop)
		os.Exit(2)
	}
	if os.Args[2] == "--replay" {
		os.Exit(doReplay(def, os.Args[3]))
	}
	tier := os.Args[2]
	fs := flag.NewFlagSet("worlda", flag.ExitOnError)
	workers := fs.Int("workers", runtime.NumCPU(), "parallel workers")
	maxItems := fs.Int("max-items", 0, "limit number of items (0 = all)")
	only := fs.Int("only", -1, "run only the item with this index (development aid)")
	digests := fs.Bool("digests", false, "print per-item event-log digests and exit (determinism gate)")
	fs.Parse(os.Args[3:])

	start := time.Now()
	root := kit.RootSeed(20260921)
	fmt.Printf("VERIF_SEED=%d property=%s tier=%s world=A workers=%d\n", root, prop, tier, *workers)
	gateTier := tier
	if tier == "gate" {
		gateTier = "quick"
	}
	items, err := buildItems(prop, gateTier, root)
	if err != nil {
		fmt.Fprintln(os.Stderr, "cannot build items:", err)
		os.Exit(2)
	}
	if tier == "gate" {
		// a seeded sample of items for the determinism gate
		r := kit.NewRand(root ^ 0x67617465)
		n := 60
		var sel []*Item
		for i := 0; i < n; i++ {
			sel = append(sel, items[r.Intn(len(items))])
		}
		items = sel
	}
	if *maxItems > 0 && len(items) > *maxItems {
		items = items[:*maxItems]
	}
	if *only >= 0 && *only < len(items) {
		items = items[*only : *only+1]
		fmt.Printf("only item %d (%s): %s\n", *only, items[0].Origin, strconv.Quote(string(items[0].Src)))
	}

	results := make([]*ItemResult, len(items))
	var next atomic.Int64
	wdSlots = make([]*wdSlot, *workers)
	for i := range wdSlots {
		wdSlots[i] = &wdSlot{}
	}
	go watchdog(prop, 120*time.Second)
	var wg sync.WaitGroup
	for w := 0; w < *workers; w++ {
		wg.Add(1)
		go func(w int) {
			defer wg.Done()
			for {
				i := int(next.Add(1)) - 1
				if i >= len(items) {
					return
				}
				it := items[i]
				wdSlots[w].desc.Store(fmt.Sprintf("item %d (%s) seed=%d input=%s", it.Idx, it.Origin, it.Seed, strconv.Quote(kit.Clip(string(it.Src), 300))))
				wdSlots[w].item.Store(it)
				wdSlots[w].tier = gateTier
				wdSlots[w].start.Store(time.Now().UnixNano())
				st := newStats()
				viols, dg := def.run(it, gateTier, st)
				wdSlots[w].start.Store(0)
				results[i] = &ItemResult{Idx: it.Idx, Stats: st, Viols: viols, Digest: dg}
			}
		}(w)
	}
	wg.Wait()

	if *digests || tier == "gate" {
		for i, r := range results {
			fmt.Printf("digest item=%d idx=%d %016x evals=%d viols=%d\n", i, r.Idx, r.Digest, r.Stats.Evals, len(r.Viols))
		}
		return
	}

	total := newStats()
	var viols []Violation
	for _, r := range results {
		total.merge(r.Stats)
		viols = append(viols, r.Viols...)
	}
	os.Exit(report(def, tier, root, start, total, viols, len(items)))
}

// report prints KNOWN-FINDING / VIOLATION lines, writes evidence, and
// returns the exit code.
func report(def *checkDef, tier string, root uint64, start time.Time, total *Stats, viols []Violation, nitems int) int {
	findings, err := kit.LoadFindings()
	if err != nil {
		fmt.Fprintln(os.Stderr, err)
		return 2
	}
	knownSeen := map[string]int{}
	var unlisted []Violation
	for _, v := range viols {
		if _, ok := kit.KnownKey(findings, def.id, v.Key); ok {
			knownSeen[v.Key]++
			continue
		}
		unlisted = append(unlisted, v)
	}
	keys := make([]string, 0, len(knownSeen))
	for k := range knownSeen {
		keys = append(keys, k)
	}
	sort.Strings(keys)
	for _, k := range keys {
		f, _ := kit.KnownKey(findings, def.id, k)
		fmt.Printf("KNOWN-FINDING: property=%s %s (seen %d times in this run)\n", def.id, strings.TrimPrefix(f.Text, "property="+def.id+" "), knownSeen[k])
	}
	exit := 0
	nviol := len(unlisted)
	if nviol > 0 {
		// Report distinct keys; minimise the first of each (bounded).
		// Violations are grouped by (mode, class, configuration) so that one
		// frequent failure does not crowd out a different one; within a
		// group the smallest input is minimised and reported.
		byKey := map[string][]Violation{}
		var order []string
		for _, v := range unlisted {
			g := v.Rep.Mode + " " + v.Class + " " + v.Rep.Cfg.String()
			if _, ok := byKey[g]; !ok {
				order = append(order, g)
			}
			byKey[g] = append(byKey[g], v)
		}
		for _, g := range order {
			vs := byKey[g]
			sort.SliceStable(vs, func(i, j int) bool { return len(vs[i].Rep.InputB64) < len(vs[j].Rep.InputB64) })
		}
		maxReport := 8
		if s := os.Getenv("VERIF_MAX_REPORT"); s != "" {
			maxReport, _ = strconv.Atoi(s)
		}
		tally := kit.Counter{}
		for _, v := range unlisted {
			tally.Add(v.Rep.Mode+" "+v.Class+" cfg="+v.Rep.Cfg.String()+" plan="+v.Rep.Plan.Family, 1)
		}
		for _, k := range tally.Keys() {
			fmt.Printf("tally %6d %s\n", tally[k], k)
		}
		for i, k := range order {
			if i >= maxReport {
				fmt.Printf("… %d more violation groups not minimised\n", len(order)-i)
				break
			}
			v := byKey[k][0]
			mv := minimise(def, v)
			path, err := kit.WriteReplay(def.id, mv.Rep)
			if err != nil {
				fmt.Fprintln(os.Stderr, "cannot write replay:", err)
				return 2
			}
			fmt.Printf("violation class=%s key=%s count=%d\n  cfg=%s plan=%s\n  input=%s\n  detail=%s\n", mv.Class, mv.Key, len(byKey[k]), mv.Rep.Cfg, mv.Rep.Plan, kit.Clip(mv.Rep.InputQ, 400), kit.Clip(mv.Detail, 600))
			fmt.Printf("VIOLATION property=%s replay=%s\n", def.id, path)
		}
		exit = 1
	}
	wall := time.Since(start)
	cov := map[string]any{
		"evaluations":         total.Evals,
		"distinct_nontrivial": total.DistinctN,
		"rule":                def.rule,
		"samples":             total.Samples,
		"items":               nitems,
		"plan_families":       total.Families,
		"fault_kinds_fired":   total.Faults,
		"reach_probes":        total.Probes,
		"non_gating_info":     total.Info,
		"simulated_time":      "not applicable in World A (no clock in the parser); the schedule is the read plan",
		"components":          map[string]string{"lexer/parser/printer (syntax)": "real", "io.Reader given to the parser": "simulated (SimReader)", "io.Writer given to the printer": "simulated (SimWriter) in reuse histories"},
		"known_findings_seen": knownSeen,
	}
	kit.Rates(cov, total.Evals, wall)
	ev := &kit.Evidence{PropertyID: def.id, Tier: tier, Seed: int64(root), Level: def.level, Coverage: cov, Assumptions: def.assume, WallS: wall.Seconds(), Violations: nviol}
	if err := kit.WriteEvidence(ev); err != nil {
		fmt.Fprintln(os.Stderr, "cannot write evidence:", err)
		return 2
	}
	fmt.Printf("property=%s tier=%s items=%d evaluations=%d distinct_nontrivial=%d violations=%d known=%d wall=%.1fs\n", def.id, tier, nitems, total.Evals, total.DistinctN, nviol, len(knownSeen), wall.Seconds())
	return exit
}

func doReplay(def *checkDef, path string) int {
	b, err := os.ReadFile(path)
	if err != nil {
		fmt.Fprintln(os.Stderr, err)
		return 2
	}
	var rep Replay
	if err := json.Unmarshal(b, &rep); err != nil {
		fmt.Fprintln(os.Stderr, err)
		return 2
	}
	if rep.Mode == "item-hang" {
		return replayItem(def, &rep, path)
	}
	wdSlots = []*wdSlot{{}}
	go watchdog(def.id, 120*time.Second)
	wdSlots[0].desc.Store("replay " + path)
	wdSlots[0].start.Store(time.Now().UnixNano())
	v := def.replay(&rep)
	if v == nil {
		fmt.Printf("replay diverged: no violation reproduced from %s (recorded class=%s)\n", path, rep.Class)
		return 2
	}
	if v.Class != rep.Class || v.Detail != rep.Detail {
		fmt.Printf("replay diverged: recorded class=%s detail=%q, observed class=%s detail=%q\n", rep.Class, rep.Detail, v.Class, v.Detail)
		return 2
	}
	fmt.Printf("replayed: class=%s key=%s\n  cfg=%s plan=%s\n  input=%s\n  detail=%s\n", v.Class, v.Key, rep.Cfg, rep.Plan, kit.Clip(rep.InputQ, 400), v.Detail)
	fmt.Printf("VIOLATION property=%s replay=%s\n", def.id, path)
	return 1
}

// replayItem re-executes a whole item that did not return; the item's own
// seed regenerates its plans and histories.
func replayItem(def *checkDef, rep *Replay, path string) int {
	var langs []string
	remarshal(rep.Extra["langs"], &langs)
	tier, _ := rep.Extra["tier"].(string)
	if tier == "" {
		tier = "quick"
	}
	it := &Item{Idx: rep.Run, Src: rep.input(), Origin: fmt.Sprint(rep.Extra["origin"]), Langs: langs, Seed: rep.Seed}
	done := make(chan struct{})
	go func() {
		def.run(it, tier, newStats())
		close(done)
	}()
	select {
	case <-done:
		fmt.Printf("replay diverged: the item returned this time (recorded class=%s)\n", rep.Class)
		return 2
	case <-time.After(60 * time.Second):
		fmt.Printf("replayed: class=%s key=%s: the item still does not return after 60s\n", rep.Class, rep.Key)
		fmt.Printf("VIOLATION property=%s replay=%s\n", def.id, path)
		return 1
	}
}
