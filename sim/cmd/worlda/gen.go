package main

import (
	"fmt"
	"strings"

	"verifsim/kit"
)

// Gen is a seeded shell-source generator biased towards constructs whose
// lexing needs look-ahead or multi-line state. It aims at mostly-valid
// programs; invalid ones are useful too (the error clause of C07/C10).
type Gen struct {
	r     *kit.Rand
	lang  string
	depth int
	hdocs []string // pending here-doc bodies for the current line
	hn    int
}

func NewGen(r *kit.Rand, lang string) *Gen { return &Gen{r: r, lang: lang} }

func (g *Gen) bashLike() bool { return g.lang == "bash" || g.lang == "bats" }
func (g *Gen) kshLike() bool  { return g.bashLike() || g.lang == "mksh" || g.lang == "zsh" }

var names = []string{"a", "b", "foo", "bar", "x1", "_v", "PATH", "arr", "i", "é", "ñandú"}
var cmds = []string{"echo", "cat", "true", "false", "printf", "read", "foo", "ls", ":", "test", "exit", "return", "cd", "grep"}

func (g *Gen) name() string {
	n := kit.Pick(g.r, names)
	if n[0] >= 0x80 {
		return "v"
	}
	return n
}

func (g *Gen) sp() string {
	switch g.r.Intn(12) {
	case 0:
		return "  "
	case 1:
		return "\t"
	case 2:
		return " \\\n "
	case 3:
		if g.r.Chance(1, 3) {
			return " \\\r\n"
		}
		return " "
	default:
		return " "
	}
}

func (g *Gen) litText() string {
	switch g.r.Intn(22) {
	case 0:
		return "é"
	case 1:
		return "日本"
	case 2:
		return "\xff" // invalid UTF-8
	case 3:
		return "a\\ b"
	case 4:
		return "\\\\"
	case 5:
		return "*.go"
	case 6:
		return "[a-z]?"
	case 7:
		return "~/x"
	case 8:
		return "{a,b}"
	case 9:
		return "{1..3}"
	case 10:
		return "x=y"
	case 11:
		return "-n"
	case 12:
		return "a\\\nb" // escaped newline inside a word
	case 13:
		return "foo#bar"
	case 14:
		return "\U0001F600"
	case 15:
		return "a\x00b" // NUL bytes are skipped by the lexer
	case 16:
		return "\\$x"
	case 17:
		return "\xe6\x97" // truncated multi-byte sequence
	case 18:
		return "a\\\r\nb"
	default:
		return kit.Pick(g.r, []string{"foo", "bar", "baz", "1", "22", "x", "file.txt", "--opt=val", "a.b"})
	}
}

// param returns a parameter expansion, sometimes with an escaped newline
// (a line continuation, legal anywhere outside quotes) placed right after
// "${", after the name or operator, or before the closing brace: these are
// the places where a line-boundary cut leaves the lexer in its
// rune-by-rune state.
func (g *Gen) param() string {
	s := g.param0()
	if !strings.HasPrefix(s, "${") || !g.r.Chance(1, 6) {
		return s
	}
	cands := []int{2, len(s) - 1}
	if i := strings.IndexAny(s[2:], "@:#%/^,-+=?["); i >= 0 {
		cands = append(cands, 2+i, 2+i+1)
	}
	k := kit.Pick(g.r, cands)
	if k < 2 || k > len(s)-1 {
		return s
	}
	nl := "\\\n"
	if g.r.Chance(1, 8) {
		nl = "\\\r\n"
	}
	return s[:k] + nl + s[k:]
}

func (g *Gen) param0() string {
	n := g.name()
	if g.r.Chance(1, 4) {
		n = kit.Pick(g.r, []string{"1", "@", "*", "#", "?", "$", "!", "-", "0", "10"})
	}
	if g.kshLike() && g.r.Chance(1, 5) {
		n += "[" + kit.Pick(g.r, []string{"0", "@", "*", "i+1", "$i", "-1", "'k'"}) + "]"
	}
	w := func() string { return g.wordNoSpace() }
	switch g.r.Intn(26) {
	case 0:
		return "${" + n + "}"
	case 1:
		return "${" + n + ":-" + w() + "}"
	case 2:
		return "${" + n + ":=" + w() + "}"
	case 3:
		return "${" + n + ":+" + w() + "}"
	case 4:
		return "${" + n + ":?" + w() + "}"
	case 5:
		return "${#" + n + "}"
	case 6:
		return "${" + n + "#" + w() + "}"
	case 7:
		return "${" + n + "##" + w() + "}"
	case 8:
		return "${" + n + "%" + w() + "}"
	case 9:
		return "${" + n + "%%" + w() + "}"
	case 10:
		if g.kshLike() {
			return "${" + n + "/" + w() + "/" + w() + "}"
		}
	case 11:
		if g.kshLike() {
			return "${" + n + "//" + w() + "}"
		}
	case 12:
		if g.kshLike() {
			return "${" + n + ":" + kit.Pick(g.r, []string{"1", "1:2", " -1", "i", "$((i+1)):2"}) + "}"
		}
	case 13:
		if g.bashLike() {
			return "${" + n + kit.Pick(g.r, []string{"^", "^^", ",", ",,"}) + "}"
		}
	case 14:
		if g.bashLike() {
			return "${" + n + "@" + kit.Pick(g.r, []string{"Q", "E", "P", "A", "a", "U", "L"}) + "}"
		}
	case 15:
		if g.bashLike() {
			return "${!" + g.name() + kit.Pick(g.r, []string{"", "*", "@", "[@]"}) + "}"
		}
	case 16:
		if g.lang == "zsh" {
			return "${" + kit.Pick(g.r, []string{"=", "==", "~", "~~", "^", "^^", "=~", "~=", "^=", "+"}) + g.name() + "}"
		}
	case 17:
		if g.lang == "zsh" {
			return "${(" + kit.Pick(g.r, []string{"U", "L", "f", "s:,:", "j: :"}) + ")" + g.name() + "}"
		}
	case 18:
		if g.lang == "zsh" {
			return kit.Pick(g.r, []string{"${#${" + g.name() + "}}", "${#\"${" + g.name() + "}\"}", "${(f)\"$(" + g.name() + ")\"}", "${${" + g.name() + "#h}%t}", "${\"${" + g.name() + "}\"}", "${$(" + g.name() + ")}", "${(U)\"$" + g.name() + "\"}"})
		}
	case 19:
		return "${" + n + "-" + w() + "}"
	case 20:
		return "${" + n + "+" + w() + "}"
	}
	return "$" + kit.Pick(g.r, []string{"a", "foo", "1", "@", "#", "?", "_v", "$", "!"})
}

func (g *Gen) arith() string {
	if g.depth > 3 {
		return kit.Pick(g.r, []string{"1", "i", "x+1"})
	}
	g.depth++
	defer func() { g.depth-- }()
	a := func() string { return g.arith() }
	switch g.r.Intn(16) {
	case 0:
		return a() + kit.Pick(g.r, []string{"+", "-", "*", "/", "%", "**", "<<", ">>", "&", "|", "^", "&&", "||", "<", ">", "<=", ">=", "==", "!=", ","}) + a()
	case 1:
		return "(" + a() + ")"
	case 2:
		return a() + " ? " + a() + " : " + a()
	case 3:
		return g.name() + kit.Pick(g.r, []string{"++", "--", "+=1", "=2", "<<=1", "|=3"})
	case 4:
		return kit.Pick(g.r, []string{"!", "~", "-", "+", "++", "--"}) + g.name()
	case 5:
		return "$" + g.name()
	case 6:
		return g.param()
	case 7:
		return "$(" + g.simple() + ")"
	case 8:
		return kit.Pick(g.r, []string{"0x1f", "010", "2#101", "16#ff", "1", "42"})
	case 9:
		if g.kshLike() {
			return g.name() + "[" + a() + "]"
		}
	case 10:
		return a() + " \\\n + " + a()
	}
	return kit.Pick(g.r, []string{"1", "i", "x", "n"})
}

// wordNoSpace returns a single shell word.
func (g *Gen) wordNoSpace() string {
	if g.depth > 4 {
		return g.litText()
	}
	g.depth++
	defer func() { g.depth-- }()
	var sb strings.Builder
	for i := g.r.Range(1, 3); i > 0; i-- {
		sb.WriteString(g.wordPart())
	}
	return sb.String()
}

func (g *Gen) dqInner() string {
	var sb strings.Builder
	for i := g.r.Range(0, 4); i > 0; i-- {
		switch g.r.Intn(12) {
		case 0:
			sb.WriteString(g.param())
		case 1:
			sb.WriteString("$(" + g.list(false) + ")")
		case 2:
			sb.WriteString("`" + g.bquoteBody(true) + "`")
		case 3:
			sb.WriteString("$((" + g.arith() + "))")
		case 4:
			sb.WriteString(kit.Pick(g.r, []string{"\\\"", "\\$", "\\`", "\\\\", "\\\n", "\\n", "\\\r\n"}))
		case 5:
			sb.WriteString(kit.Pick(g.r, []string{"\n", " ", "é", "'", "#", ";", "\r\n", "$", "\xff", "日"}))
		default:
			sb.WriteString(kit.Pick(g.r, []string{"foo", "bar baz", "a=b", "*", "~", "{x}"}))
		}
	}
	return sb.String()
}

// bquoteBody produces a command for inside backquotes; inner backquotes and
// dollars must be escaped once more per nesting level.
func (g *Gen) bquoteBody(inDq bool) string {
	s := g.simple()
	if strings.ContainsAny(s, "`") {
		s = strings.ReplaceAll(s, "\\", "\\\\")
		s = strings.ReplaceAll(s, "`", "\\`")
	}
	if inDq && g.r.Chance(1, 4) {
		s += " \\\"q\\\""
	}
	if g.r.Chance(1, 6) {
		s += " # c"
	}
	return s
}

func (g *Gen) wordPart() string {
	switch g.r.Intn(34) {
	case 0, 1:
		return "\"" + g.dqInner() + "\""
	case 2:
		return "'" + kit.Pick(g.r, []string{"", "a b", "$x", "\\", "\n", "é", "\"", "`", "#", "a\\\nb", "\r\n"}) + "'"
	case 3:
		if g.kshLike() {
			return "$'" + kit.Pick(g.r, []string{"\\n", "a\\'b", "\\x41", "\\u00e9", "", "\\\\", "x\\\ny"}) + "'"
		}
	case 4:
		if g.bashLike() {
			return "$\"" + g.dqInner() + "\""
		}
	case 5, 6:
		return g.param()
	case 7, 8:
		return "$(" + g.list(false) + ")"
	case 9:
		return "`" + g.bquoteBody(false) + "`"
	case 10:
		return "$((" + g.arith() + "))"
	case 11:
		if g.bashLike() || g.lang == "zsh" {
			return kit.Pick(g.r, []string{"<(", ">("}) + g.list(false) + ")"
		}
	case 12:
		if g.bashLike() || g.lang == "mksh" {
			return kit.Pick(g.r, []string{"@", "?", "*", "+", "!"}) + "(" + kit.Pick(g.r, []string{"a|b", "foo", "*.c|*.h", "", "x|@(y|z)"}) + ")"
		}
	case 13:
		if g.lang == "zsh" {
			return "<" + kit.Pick(g.r, []string{"1-20", "-", "5-", "-9", "100-2000", "1-2>x", "0-9"}) + ">"
		}
	case 14:
		if g.lang == "zsh" {
			return kit.Pick(g.r, []string{"*(.)", "**/*(N)", "*.c~x.c", "^foo", "(a|b)*", "x#", "=ls"})
		}
	case 15:
		if g.bashLike() && g.r.Chance(1, 2) {
			return "$[" + g.arith() + "]"
		}
	case 16:
		return kit.Pick(g.r, []string{"$", "\\", "~", "~root", "#", "=", "a=", "%1", "^", "!", "{", "}", "{}", "[", "]", "]]x", "@", "+", "?", "*"})
	case 17:
		if g.lang == "mksh" || g.bashLike() {
			return "${ " + g.simple() + ";}"
		}
	case 18:
		if g.lang == "mksh" {
			return "${|" + g.simple() + ";}"
		}
	}
	return g.litText()
}

func (g *Gen) redirect() string {
	fd := kit.Pick(g.r, []string{"", "", "", "2", "1", "3", "{fd}"})
	if !g.bashLike() && fd == "{fd}" {
		fd = ""
	}
	switch g.r.Intn(16) {
	case 0, 1:
		return fd + ">" + g.sp() + g.wordNoSpace()
	case 2:
		return fd + ">>" + g.wordNoSpace()
	case 3:
		return fd + "<" + g.sp() + g.wordNoSpace()
	case 4:
		return fd + ">&" + kit.Pick(g.r, []string{"2", "1", "-", "$fd"})
	case 5:
		return fd + "<&" + kit.Pick(g.r, []string{"0", "-", "3"})
	case 6:
		return fd + ">|" + g.wordNoSpace()
	case 7:
		return fd + "<>" + g.wordNoSpace()
	case 8:
		if g.kshLike() {
			return "&>" + g.wordNoSpace()
		}
	case 9:
		if g.kshLike() {
			return "&>>" + g.wordNoSpace()
		}
	case 10:
		if g.kshLike() {
			return fd + "<<<" + g.sp() + g.wordNoSpace()
		}
	case 11, 12, 13:
		return g.heredoc(fd)
	case 14:
		if g.lang == "zsh" {
			return kit.Pick(g.r, []string{">!", ">>!", "&>!", ">>|", "&>|", ">&|"}) + g.wordNoSpace()
		}
	}
	return ">" + g.wordNoSpace()
}

func (g *Gen) heredoc(fd string) string {
	g.hn++
	tag := kit.Pick(g.r, []string{"EOF", "E", "END_1", "é", "EOF2", "_"})
	op := "<<"
	tabs := false
	if g.r.Chance(1, 3) {
		op = "<<-"
		tabs = true
	}
	quoted := g.r.Intn(5)
	word := tag
	switch quoted {
	case 0:
		word = "'" + tag + "'"
	case 1:
		word = "\"" + tag + "\""
	case 2:
		word = "\\" + tag
	}
	var body strings.Builder
	for i := g.r.Range(0, 4); i > 0; i-- {
		if tabs && g.r.Chance(1, 2) {
			body.WriteString("\t")
		}
		switch g.r.Intn(12) {
		case 0:
			if quoted > 2 {
				body.WriteString(g.param())
			} else {
				body.WriteString("$x ${y")
			}
		case 1:
			if quoted > 2 {
				// command substitutions inside the body, also ones that
				// span lines: the printer formats them with a nested printer
				switch g.r.Intn(5) {
				case 0:
					body.WriteString("$(" + g.simple() + " \\\n" + g.simple() + ") tail")
				case 1:
					body.WriteString("$(" + g.simple() + " |\n" + g.simple() + " &&\n" + g.simple() + ")")
				case 2:
					body.WriteString("$(\nif " + g.simple() + "; then\n" + g.simple() + "\nfi\n)")
				case 3:
					body.WriteString("`" + g.simple() + " \\\n" + g.simple() + "`")
				default:
					body.WriteString("$(" + g.simple() + ")")
				}
			} else {
				body.WriteString("$(unclosed `")
			}
		case 2:
			body.WriteString("line \\\ncontinued")
		case 3:
			body.WriteString(tag + " not the end")
		case 4:
			body.WriteString(" " + tag)
		case 5:
			body.WriteString("é日本\xff")
		case 6:
			body.WriteString("")
		case 7:
			if quoted > 2 {
				body.WriteString("`" + g.bquoteBody(false) + "` \\$x \\\\")
			} else {
				body.WriteString("\\")
			}
		case 8:
			body.WriteString("text\r")
		default:
			body.WriteString("some text # not a comment ' \" ")
		}
		body.WriteString("\n")
	}
	end := tag
	if tabs && g.r.Chance(1, 2) {
		end = "\t\t" + tag
	}
	switch g.r.Intn(14) {
	case 0:
		// unterminated here-doc (EOF closes it; a warning-level situation)
		g.hdocs = append(g.hdocs, body.String())
	case 1:
		// delimiter without trailing newline
		g.hdocs = append(g.hdocs, body.String()+end)
	default:
		g.hdocs = append(g.hdocs, body.String()+end+"\n")
	}
	return fd + op + g.sp0() + word
}

func (g *Gen) sp0() string {
	if g.r.Chance(1, 3) {
		return " "
	}
	return ""
}

// flush emits a newline followed by pending here-doc bodies.
func (g *Gen) nl() string {
	s := "\n"
	if g.r.Chance(1, 10) {
		s = "\r\n"
	}
	for _, h := range g.hdocs {
		s += h
	}
	g.hdocs = g.hdocs[:0]
	return s
}

func (g *Gen) assign() string {
	n := g.name()
	switch g.r.Intn(10) {
	case 0:
		if g.kshLike() {
			return n + "=(" + g.arrayElems() + ")"
		}
	case 1:
		if g.kshLike() {
			return n + "+=(" + g.arrayElems() + ")"
		}
	case 2:
		if g.kshLike() {
			return n + "[" + g.arith() + "]=" + g.wordNoSpace()
		}
	case 3:
		if g.kshLike() {
			return n + "+=" + g.wordNoSpace()
		}
	case 4:
		return n + "="
	}
	return n + "=" + g.wordNoSpace()
}

func (g *Gen) arrayElems() string {
	var sb strings.Builder
	for i := g.r.Range(0, 4); i > 0; i-- {
		switch g.r.Intn(8) {
		case 0:
			if g.bashLike() {
				sb.WriteString("[" + kit.Pick(g.r, []string{"0", "k", "i+1", "\"a b\""}) + "]=" + g.wordNoSpace())
				break
			}
			fallthrough
		case 1:
			sb.WriteString("\n")
			if g.r.Chance(1, 2) {
				sb.WriteString("# comment in array\n")
			}
			sb.WriteString(g.wordNoSpace())
		default:
			sb.WriteString(g.wordNoSpace())
		}
		sb.WriteString(g.sp())
	}
	return sb.String()
}

func (g *Gen) simple() string {
	var sb strings.Builder
	if g.r.Chance(1, 6) {
		sb.WriteString(g.assign() + " ")
	}
	sb.WriteString(kit.Pick(g.r, cmds))
	for i := g.r.Range(0, 4); i > 0; i-- {
		sb.WriteString(g.sp())
		if g.r.Chance(1, 7) {
			sb.WriteString(g.redirect())
		} else {
			sb.WriteString(g.wordNoSpace())
		}
	}
	return sb.String()
}

func (g *Gen) testExpr() string {
	if g.depth > 3 {
		return "-n " + g.wordNoSpace()
	}
	g.depth++
	defer func() { g.depth-- }()
	switch g.r.Intn(12) {
	case 0:
		return g.testExpr() + " && " + g.testExpr()
	case 1:
		return g.testExpr() + " || " + g.testExpr()
	case 2:
		return "! " + g.testExpr()
	case 3:
		return "( " + g.testExpr() + " )"
	case 4:
		return g.wordNoSpace() + " =~ " + kit.Pick(g.r, []string{"^a(b|c)+$", "[[:space:]]*(x)", "a b", "\"q\"$x", "(foo|bar)\\)", "^[a-z]{2,3}$", ".*\\.go"})
	case 5:
		return g.wordNoSpace() + " " + kit.Pick(g.r, []string{"==", "=", "!=", "<", ">", "-eq", "-ne", "-lt", "-nt", "-ef"}) + " " + g.wordNoSpace()
	case 6:
		return kit.Pick(g.r, []string{"-e", "-f", "-d", "-z", "-n", "-v", "-R", "-x"}) + " " + g.wordNoSpace()
	case 7:
		return g.wordNoSpace() + "\n==\n" + g.wordNoSpace()
	default:
		return g.wordNoSpace()
	}
}

func (g *Gen) sep() string {
	switch g.r.Intn(8) {
	case 0:
		return "; "
	case 1:
		return " &" + g.nl()
	case 2:
		return ";" + g.nl()
	case 3:
		return g.nl() + g.comment() + g.nl()
	case 4:
		return g.nl() + "\n\n"
	default:
		return g.nl()
	}
}

func (g *Gen) comment() string {
	return kit.Pick(g.r, []string{"# comment", "#", "  # é ☺ comment `with` $(stuff", "#!shebang", "#\\", "# trailing backslash \\"})
}

// list produces one or more statements; closeNl says whether the list must
// end with a newline/semicolon (before a closing keyword).
func (g *Gen) list(closer bool) string {
	var sb strings.Builder
	n := g.r.Range(1, 2)
	if g.depth == 0 {
		n = g.r.Range(1, 6)
	}
	for i := 0; i < n; i++ {
		sb.WriteString(g.andor())
		if i < n-1 {
			if len(g.hdocs) > 0 {
				sb.WriteString(g.nl())
			} else {
				sb.WriteString(g.sep())
			}
		}
	}
	if len(g.hdocs) > 0 {
		sb.WriteString(g.nl())
	} else if closer {
		sb.WriteString(kit.Pick(g.r, []string{"; ", "\n", ";\n", " # c\n"}))
	} else if g.r.Chance(1, 8) {
		sb.WriteString(" " + g.comment() + "\n")
	}
	return sb.String()
}

func (g *Gen) andor() string {
	s := g.pipeline()
	for g.r.Chance(1, 5) {
		s += " " + kit.Pick(g.r, []string{"&&", "||"}) + kit.Pick(g.r, []string{" ", "\n", " # c\n", " \\\n"}) + g.pipeline()
	}
	return s
}

func (g *Gen) pipeline() string {
	s := ""
	if g.r.Chance(1, 12) {
		s = "! "
	}
	if g.kshLike() && g.r.Chance(1, 20) {
		s += "time "
	}
	s += g.command()
	for g.r.Chance(1, 5) {
		op := "|"
		if g.kshLike() && g.r.Chance(1, 4) {
			op = "|&"
		}
		s += " " + op + kit.Pick(g.r, []string{" ", "\n", " \\\n"}) + g.command()
	}
	return s
}

func (g *Gen) command() string {
	if g.depth > 3 {
		return g.simple()
	}
	g.depth++
	defer func() { g.depth-- }()
	rd := func() string {
		if g.r.Chance(1, 5) {
			return " " + g.redirect()
		}
		return ""
	}
	switch g.r.Intn(30) {
	case 0:
		return "if " + g.list(true) + "then " + g.list(true) + g.elifs() + "fi" + rd()
	case 1:
		return kit.Pick(g.r, []string{"while ", "until "}) + g.list(true) + "do " + g.list(true) + "done" + rd()
	case 2:
		s := "for " + g.name()
		if g.r.Chance(3, 4) {
			s += " in"
			for i := g.r.Range(0, 3); i > 0; i-- {
				s += " " + g.wordNoSpace()
			}
		}
		return s + kit.Pick(g.r, []string{"; ", "\n"}) + "do " + g.list(true) + "done"
	case 3:
		if g.kshLike() {
			return "for ((" + g.arith() + "; " + g.arith() + "; " + g.arith() + ")); do " + g.list(true) + "done"
		}
	case 4, 5:
		return g.caseClause()
	case 6:
		return "(" + g.sp0() + g.list(false) + ")" + rd()
	case 7:
		return "{ " + g.list(true) + "}" + rd()
	case 8:
		if g.kshLike() && g.r.Chance(1, 2) {
			return "function " + g.name() + kit.Pick(g.r, []string{" ", "() ", " () "}) + "{ " + g.list(true) + "}"
		}
		return g.name() + kit.Pick(g.r, []string{"()", "( )", " ()\n"}) + " { " + g.list(true) + "}"
	case 9, 10:
		if g.kshLike() {
			return "[[ " + g.testExpr() + " ]]"
		}
	case 11:
		if g.kshLike() {
			return "((" + g.arith() + "))"
		}
	case 12:
		if g.kshLike() {
			return "let " + kit.Pick(g.r, []string{"i++", "'x = 1 + 2'", "\"a=$b\"", "i+=2 j=3"})
		}
	case 13:
		if g.kshLike() {
			return kit.Pick(g.r, []string{"declare", "local", "export", "readonly", "typeset", "declare -a", "declare -A", "local -r"}) + " " + g.assign()
		}
	case 14:
		if g.bashLike() {
			return "coproc " + kit.Pick(g.r, []string{"", "nm "}) + "{ " + g.list(true) + "}"
		}
	case 15:
		if g.kshLike() {
			return "select " + g.name() + " in a b; do " + g.list(true) + "done"
		}
	case 16:
		return g.assign() + " " + g.assign()
	case 17:
		if g.lang == "bats" {
			return "@test " + "\"" + kit.Pick(g.r, []string{"desc", "a b", "é"}) + "\" { " + g.list(true) + "}"
		}
	case 18:
		if g.lang == "zsh" {
			switch g.r.Intn(4) {
			case 0:
				return "repeat 3 " + g.simple()
			case 1:
				return "{ " + g.list(true) + "} always { " + g.list(true) + "}"
			case 2:
				return "for " + g.name() + " (" + g.wordNoSpace() + ") " + g.simple()
			default:
				return "if [[ -n x ]] { " + g.list(true) + "}"
			}
		}
	case 19:
		return g.simple() + " " + g.heredoc("")
	case 20:
		return "$(" + g.list(false) + ")"
	}
	return g.simple() + rd()
}

func (g *Gen) elifs() string {
	s := ""
	for g.r.Chance(1, 4) {
		s += "elif " + g.list(true) + "then " + g.list(true)
	}
	if g.r.Chance(1, 3) {
		s += "else " + g.list(true)
	}
	return s
}

func (g *Gen) caseClause() string {
	var sb strings.Builder
	sb.WriteString("case " + g.wordNoSpace() + " in" + kit.Pick(g.r, []string{" ", "\n", " # c\n"}))
	n := g.r.Range(0, 3)
	for i := 0; i < n; i++ {
		if g.r.Chance(1, 3) {
			sb.WriteString("(")
		}
		sb.WriteString(kit.Pick(g.r, []string{"a", "*", "a|b", "\"x\"|'y'", "[0-9]*", "$v", "?(a|b)", "é*", "esac2"}))
		sb.WriteString(") ")
		if g.r.Chance(4, 5) {
			sb.WriteString(g.list(false))
		}
		term := ";;"
		if g.bashLike() || g.lang == "zsh" || g.lang == "mksh" {
			term = kit.Pick(g.r, []string{";;", ";;", ";&", ";;&"})
			if g.lang == "zsh" && term == ";;&" {
				term = ";|"
			}
			if g.lang == "mksh" && term == ";;&" {
				term = ";|"
			}
		}
		if i == n-1 && g.r.Chance(1, 3) {
			sb.WriteString("\n")
		} else {
			if len(g.hdocs) > 0 {
				sb.WriteString(g.nl())
			}
			sb.WriteString(" " + term + kit.Pick(g.r, []string{" ", "\n", " # c\n"}))
		}
	}
	if len(g.hdocs) > 0 {
		sb.WriteString(g.nl())
	}
	sb.WriteString("esac")
	return sb.String()
}

// Program is the entry point.
func (g *Gen) Program() string {
	g.depth = 0
	var sb strings.Builder
	if g.r.Chance(1, 10) {
		sb.WriteString("#!/bin/sh\n")
	}
	sb.WriteString(g.list(false))
	if len(g.hdocs) > 0 {
		sb.WriteString(g.nl())
	}
	switch g.r.Intn(6) {
	case 0: // no trailing newline
	case 1:
		sb.WriteString(" " + g.comment())
	case 2:
		sb.WriteString("\n\n")
	default:
		sb.WriteString("\n")
	}
	return sb.String()
}

// mutate applies a byte-level fault (a flipped/inserted/deleted stored byte)
// to manufacture arbitrary invalid inputs.
func mutate(r *kit.Rand, src string) (string, string) {
	if len(src) == 0 {
		return src, "none"
	}
	b := []byte(src)
	k := r.Intn(len(b))
	pool := []byte("\"'`$(){}[]<>|&;\\\n\r #=!~*?\x00\xff\xc3")
	switch r.Intn(4) {
	case 0:
		b[k] = kit.Pick(r, pool)
		return string(b), fmt.Sprintf("flip@%d", k)
	case 1:
		b = append(b[:k], append([]byte{kit.Pick(r, pool)}, b[k:]...)...)
		return string(b), fmt.Sprintf("insert@%d", k)
	case 2:
		b = append(b[:k], b[k+1:]...)
		return string(b), fmt.Sprintf("delete@%d", k)
	default:
		return string(b[:k]), fmt.Sprintf("cut@%d", k)
	}
}
