package main

import "os"

// extraInputs are valid (in at least one variant) programs with line
// continuations and line breaks in unusual places.
var extraInputs = []string{
	"echo ${\\\nfoo}\n",
	"echo ${foo\\\n}\n",
	"echo ${foo@\\\nQ}\n",
	"echo ${foo:-\\\nx}\n",
	"echo ${foo:\\\n-x}\n",
	"echo ${fo\\\no}\n",
	"echo ${foo[\\\n1]}\n",
	"echo ${foo[1\\\n]}\n",
	"echo ${foo/\\\na/b}\n",
	"echo ${foo/a/\\\nb}\n",
	"echo ${foo%\\\n%x}\n",
	"echo ${foo:1\\\n:2}\n",
	"echo ${#foo\\\n}\n",
	"echo ${!foo\\\n*}\n",
	"echo ${foo^\\\n^}\n",
	"echo $\\\nfoo\n",
	"echo $((1+\\\n2))\n",
	"echo $((\\\n1))\n",
	"echo $(( x = \\\n 1 ? \\\n 2 : 3 ))\n",
	"(( x \\\n++ ))\n",
	"[[ a \\\n== b ]]\n",
	"[[ a ==\\\n b ]]\n",
	"[[ a =~ ^b\\\nc$ ]]\n",
	"case x in a\\\nb) echo y;; esac\n",
	"for i in a \\\nb; do echo $i; done\n",
	"for ((i=0;\\\ni<3;i++)); do :; done\n",
	"a=(1 \\\n2)\n",
	"a[1\\\n]=x\n",
	"echo \"a\\\nb\" 'c\nd' $'e\\\nf'\n",
	"echo a |\\\n cat\n",
	"echo a &&\\\n echo b\n",
	"echo a >\\\n/dev/null\n",
	"cat <<\\\nEOF\nbody\nEOF\n",
	"cat <<E\\\nOF\nbody\nEOF\n",
	"f\\\noo() { echo x; }\n",
	"function f\\\n { echo x; }\n",
	"if true\\\n; then echo x; fi\n",
	"echo `echo a\\\nb`\n",
	"echo $(echo a\\\nb)\n",
	"echo <(echo \\\na)\n",
	"echo @(a|\\\nb)\n",
	"echo !(*.o|\n*.a)\n",
	"case $f in\n@(*.tar.gz|\n *.tgz)) echo t;;\nesac\n",
	"echo a\r\necho b\\\r\nc\r\n",
	"echo \xc3\xa9\\\n\xe6\x97\xa5\n",
	"echo a\x00b\\\nc\n",
	"echo ${foo@\\\r\nQ}\r\n",
	"echo ${arr[(ws:\n:)2]}\n",
	"echo $text[(ws:\n:)2]\n",
	"print ${(f)\\\nfoo}\n",
	"echo ${|\\\necho x;}\n",
	"echo ${ \\\necho x;}\n",
	"@test \"a\\\nb\" { true; }\n",
	"coproc a\\\nb { cat; }\n",
	"select x in a \\\nb; do break; done\n",
	"time \\\necho x\n",
	"! \\\ntrue\n",
	"echo $\"a\\\nb\"\n",
	"let a=1\\\n+2\n",
	"declare -a a=(\\\n1)\n",
	"x=1 \\\ny=2 echo z\n",
	"echo a 2>\\\n&1\n",
	"echo a &>\\\n/dev/null\n",
	"echo a <<<\\\nb\n",
	// a stop word (see StopAt) in the middle of a line that still has
	// here-documents pending, inside quotes, after operators
	"foo <<EOF % bar\nbody\nEOF\n",
	"foo <<a <<b % bar\n1\na\n2\nb\n",
	"cat <<E $$ x\nb\nE\necho after\n",
	"cat <<-E } done\n\tb\n\tE\n",
	"echo a; foo b; echo c\n",
	"echo a é b éé c\n",
	"echo a;é\n",
	"echo 'foo' \"foo\" foo\n",
	"if true; then echo done; fi\n",
	"echo $(echo a % b) % c\n",
	"echo `echo a foo b` foo\n",
	"echo a #comment foo\nfoo\n",
	"@() { echo at; }\n",
	"+() { echo plus; }\n",
	"foo@() { echo x; }\n",
	"echo a@()b\n",
	"a=@()\n",
	"[[ a == @() ]]\n",
	"case x in @()) echo e;; esac\n",
	"echo ?() *() !()\n",
	// reserved words and operators split by a line continuation
	"for i i\\\nn a b; do echo $i; done\n", "for i in a b; d\\\no echo $i; done\n", "case a i\\\nn a) echo;; esac\n", "if a; the\\\nn b; fi\n", "while a; d\\\no b; don\\\ne\n", "select i i\\\nn a; do b; done\n", "[[ a ]\\\n]\n", "a[1]+\\\n=2\n", "echo a &\\\n& echo b\n", "echo a |\\\n| echo b\n", "f\\\noo() { :; }\n", "echo $\\\n((1))\n", "echo $((1)\\\n)\n",
	// inputs that end in a word the lexer treats specially, and inputs that
	// begin with a construct whose parsing looks back at the previous token
	"echo function\n", "a=1; export function\n", "function\n", "echo function", "echo in\n", "echo do\n", "echo {\n", "echo time\n", "echo select\n", "echo coproc\n", "echo [[\n", "echo ]]\n", "echo esac\n", "echo then\n", "echo !\n",
	"for\n", "case\n", "if\n", "select\n", "coproc\n", "time\n", "[[\n", "{\n", "(\n", "!\n", "foo() \n", "declare\n", "let\n",
	"@(a|b)\n", "+(x) y\n", "!(a)\n", "?(z) w\n", "*(q)\n", "@(a|b) c; +(d)\n", "=~ x\n", "]] a\n", "done\n", "} a\n", ") a\n", ";; a\n", "in a\n", "a[1]=2\n", "[1]=2\n", "(a b)\n", "$(a) b\n", "<(a) b\n", "<<EOF\nx\nEOF\n", "#c\na\n", "\\\na\n",
	// multi-line first statements and blank or comment-only first lines
	"if true\nthen\necho yes\nfi\necho done\n", "\n\n# only a comment\n\necho a\n", "while a\ndo\nb\ndone\n", "a &&\nb ||\nc\n", "f() {\na\n}\nf\n", "cat <<EOF\none\ntwo\nEOF\necho after\n",
	// look-ahead at the end of a line (an interactive parser must not wait)
	"cat <1\necho next\n", "cat <1-\necho next\n", "cat <12-3\necho next\n", "echo a <\necho next\n", "echo `echo a\\`\necho next\n", "echo \\\\\necho next\n", "echo a\\\\\necho next\n",
	"echo *\necho next\n", "echo @\necho next\n", "echo a?\necho next\n", "echo +\necho next\n", "echo $\necho next\n", "echo ${a}$\necho next\n", "echo a=\necho next\n", "a=\necho next\n", "a[1]=\necho next\n", "echo a|\ncat\n", "echo a &\necho next\n", "echo a;\necho next\n", "echo [\necho next\n", "echo {\necho next\n", "echo }\necho next\n", "echo !\necho next\n", "echo %\necho next\n", "echo ~\necho next\n", "echo a#\necho next\n", "echo -\necho next\n", "echo <(\na)\n", "echo $(\na)\n", "echo $((\n1))\n", "((\n1))\n", "echo a>\nf\n", "echo a>|\nf\n", "echo a<<<\nb\n", "echo a&>\nf\n", "echo a >&\n2\n",
	// zsh expansion flags in the short form at the end of a line
	"echo $=\necho next\n", "echo $~\necho next\n", "echo $^\necho next\n", "echo $==\necho next\n", "echo \"$=\"\necho next\n", "echo $=a $~b $^c $==d\n", "echo a\\\rb\necho next\n", "echo a\\\r\necho next\n",
	// zsh nested parameter expansions (the printer switches options around them)
	"foo && bar || baz\necho ${c}\nlines=(${(f)\"$(cat file)\"})\nfoo && bar || baz\nif a; then b; fi\necho ${c}\n",
	"while a; do b; done\necho ${y} && echo ${#\"${foo}\"} && echo ${x}\nwhile a; do b; done\n",
	"f() { a; b; }\necho ${${foo#head}%tail} ${\"${bar}\"}\nf() { a; b; }\n",
	// regular expressions with parentheses in [[ ]]
	"[[ a =~ (b) ]]\n[[ a =~ b ]]\n",
	"[[ $x =~ ^(foo|bar)(baz)?$ && -n $y ]]\n[[ a =~ ((b)c) ]] || [[ d =~ e ]]\n",
	"[[ a =~ (\"b\" ]]\n",
	"if [[ a =~ (b ]]; then :; fi\n[[ c =~ d ]]\n",
	// here-documents pending while an array literal fails or nests
	"echo a <<EOF; x=(b c)\nbody\nEOF\ny=([k]=v)\n",
	"cat <<EOF; x=([k]=(v))\nbody\nEOF\n",
	"cat <<A <<B; x=(a (b))\na\nA\nb\nB\n",
	// here-documents whose bodies the printer formats with a nested printer
	"cat <<-EOF\n\t$(foo \\\n\t\tbar) tail\n\tEOF\n",
	"cat <<-EOF\n\t$(a |\n\t\tb &&\n\t\tc)\n\tEOF\ncat <<-EOF\n\t$(foo \\\n\t\tbar)\n\tEOF\n",
	"if a; then\n\tcat <<-EOF\n\t\t$(\n\t\t\tif b; then\n\t\t\t\tc\n\t\t\tfi\n\t\t)\n\tEOF\nfi\n",
	"cat <<-EOF\n\t`foo \\\n\tbar`\n\t${x:-$(a \\\n\t\tb)}\n\tEOF\n",
	"f() {\n\tcat <<-EOF | tr a b\n\t\tx $(c1 \\\n\t\t\tc2) y\n\tEOF\n\tcat <<-E2\n\t\t$(d1 &&\n\t\t\td2)\n\tE2\n}\n",
	"cat <<EOF\n$(foo \\\n\tbar)\nEOF\n",
	"a=(\n\tb # c\n\td\n)\ncat <<-EOF\n\t$(a=(\n\t\tb\n\t))\n\tEOF\n",
}

// specialEndings are inputs that leave the lexer right after a word or
// token it treats specially; each is tried as the only earlier input of a
// reused Parser before every hand-written input.
var specialEndings = []string{
	"echo function\n", "echo function", "function\n", "export function\n", "echo in\n", "echo do", "echo {\n", "echo time\n", "echo select", "echo coproc\n", "echo [[\n", "[[ a =~ (b", "[[ a =~ b", "echo ]]\n", "echo esac", "echo then\n", "echo !\n",
	"for", "case x in", "if", "select", "coproc", "time", "[[", "{", "(", "!", "foo() ", "declare", "let", "a=(", "a=(b", "$((", "$(", "${", "`", "'", "\"", "<<EOF\n", "<<-EOF\n\t", "a |", "a &&", "a \\\n", "a #c", "a=", "a[", "x=([k]=(v))", "echo a <<EOF; x=(b (c))\n",
}

// debugHist prints every reuse-history step before it runs (development aid).
var debugHist = os.Getenv("VERIF_DEBUG_HIST") != ""
