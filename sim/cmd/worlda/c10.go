package main

import (
	"bytes"
	"encoding/json"
	"fmt"
	"strconv"
	"strings"

	"mvdan.cc/sh/v3/syntax"
	"verifsim/kit"
)

func init() {
	checks["C10"] = &checkDef{
		id:     "C10",
		level:  "fault_enumeration",
		run:    runC10,
		replay: replayC10,
		rule: "Fault = the stream ends (EOF) early. For every program valid in a variant, EVERY line-boundary cut point is enumerated (complete per input <= 16 KiB; 256 sampled cuts beyond) and the prefix is parsed one-shot and under two seeded short-read plans with the EOF fault at the cut: the parse must succeed or fail with IsIncomplete(err)==true. " +
			"Position clause: every ParseError/LangError produced by any parse in this check (prefixes, inputs invalid in the variant, inputs truncated at seeded byte offsets, inputs with a flipped/inserted/deleted byte) must carry a valid position that lies inside the delivered bytes: offset <= len, line <= number of lines, column <= length of that line + 1. " +
			"Non-trivial: the cut is strictly inside the program and the prefix parse ended in an error (the cut fell inside a multi-line construct) or an invalid input produced a positioned error; distinct = distinct (input, variant, cut/fault) hashes.",
		assume: []string{
			"validity of a program in a variant is decided by the parser itself (one-shot parse succeeds)",
			"exact agreement between offset and line:column is tallied but not gated (that is C09, unclaimed)",
		},
	}
}

func remarshal(from, to any) {
	b, _ := json.Marshal(from)
	json.Unmarshal(b, to)
}

func errPos(err error) (syntax.Pos, bool) {
	switch e := err.(type) {
	case syntax.ParseError:
		return e.Pos, true
	case syntax.LangError:
		return e.Pos, true
	}
	return syntax.Pos{}, false
}

// posInside checks the position clause against the delivered bytes.
func posInside(err error, delivered []byte) (ok bool, detail string, exact bool) {
	pos, has := errPos(err)
	if !has {
		return true, "", true
	}
	if !pos.IsValid() || pos.IsRecovered() {
		return false, fmt.Sprintf("error %s has an invalid position", errString(err)), false
	}
	off := int(pos.Offset())
	if off > len(delivered) {
		return false, fmt.Sprintf("error %s: offset %d is past the %d delivered bytes", errString(err), off, len(delivered)), false
	}
	lines := bytes.Split(delivered, []byte("\n"))
	ln := int(pos.Line())
	if ln < 1 || ln > len(lines) {
		return false, fmt.Sprintf("error %s: line %d but the input has %d lines", errString(err), ln, len(lines)), false
	}
	col := int(pos.Col())
	if col < 1 || col > len(lines[ln-1])+1 {
		return false, fmt.Sprintf("error %s: column %d but line %d has %d bytes", errString(err), col, ln, len(lines[ln-1])), false
	}
	el, ec := lineColAt(delivered, off)
	return true, "", el == ln && ec == col
}

func mkC10Violation(it *Item, cfg Cfg, data []byte, plan Plan, class, detail string, cut int) Violation {
	rep := Replay{Property: "C10", World: "A", Seed: it.Seed, Run: it.Idx, Mode: "trunc-parse", Cfg: cfg, Plan: plan, Class: class, Detail: detail,
		Extra: map[string]any{"origin": it.Origin, "cut": cut}}
	rep.setInput(data)
	key := class + ":" + cfg.Lang + ":" + kit.Digest(data, []byte(strconv.Itoa(cut)))
	rep.Key = key
	return Violation{Class: class, Key: key, Detail: detail, Rep: rep}
}

// c10One parses data under plan (whose TruncAt is the EOF fault) and applies
// both clauses. lineCut says whether the incompleteness clause applies.
func c10One(cfg Cfg, data []byte, plan Plan, lineCut bool, st *Stats) (ok bool, class, detail string, gotErr bool) {
	delivered := data
	if plan.TruncAt >= 0 && plan.TruncAt < len(data) {
		delivered = data[:plan.TruncAt]
	}
	res, _ := parseWith(cfg, data, plan)
	if res.Panic != "" {
		if st != nil {
			st.Info.Add("panic(C06,unclaimed)", 1)
		}
		return true, "", "", false
	}
	if res.Err == nil {
		return true, "", "", false
	}
	pok, pdetail, exact := posInside(res.Err, delivered)
	if st != nil {
		st.Probes.Add("positioned-error-checked", 1)
		if !exact && pok {
			st.Info.Add("offset-vs-line:col-not-exactly-consistent(C09,unclaimed)", 1)
		}
	}
	if !pok {
		return false, "error-position-outside-input", pdetail, true
	}
	if lineCut && !syntax.IsIncomplete(res.Err) {
		if _, isLang := res.Err.(syntax.LangError); isLang {
			// cannot happen for a prefix of a program valid in this variant
			return false, "lang-error-on-prefix-of-valid-program", errString(res.Err), true
		}
		return false, "line-boundary-prefix-error-not-incomplete", fmt.Sprintf("prefix %s fails with %s", strconv.Quote(kit.Clip(tail(delivered, 80), 100)), errString(res.Err)), true
	}
	return true, "", "", true
}

func tail(b []byte, n int) string {
	if len(b) <= n {
		return string(b)
	}
	return "…" + string(b[len(b)-n:])
}

func runC10(it *Item, tier string, st *Stats) ([]Violation, uint64) {
	r := kit.NewRand(it.Seed)
	data := it.Src
	var viols []Violation
	var dg uint64 = 1469598103934665603
	logDigest := func(x uint64) { dg = (dg ^ x) * 1099511628211 }
	inputHash := kit.Hash64(data)
	nrand := 4
	if tier == "thorough" {
		nrand = 16
	}
	for _, lang := range it.Langs {
		cfg := Cfg{Lang: lang, KeepComments: r.Chance(1, 2)}
		cfgHash := kit.Hash64([]byte(lang))
		ref := parseOneShot(cfg, data)
		valid := ref.Panic == "" && ref.Err == nil
		if !valid && ref.Panic == "" && it.Valid[lang] && (strings.HasPrefix(it.Origin, "variants[") || strings.HasPrefix(it.Origin, "corpus[")) {
			// Recorded as a valid program of this variant when the corpus
			// was harvested (variants: also by "bash -n"). The whole program
			// is its own prefix at the last line boundary, so a failure
			// that is not reported as incomplete breaks the clause.
			st.Probes.Add("recorded-valid-program-now-rejected", 1)
			if !syntax.IsIncomplete(ref.Err) {
				viols = append(viols, mkC10Violation(it, cfg, data, OneShot(), "recorded-valid-program-rejected-and-not-incomplete", fmt.Sprintf("recorded as a valid %s program (%s), now fails with %s", lang, it.Origin, errString(ref.Err)), len(data)))
			}
		}
		note := func(class string, cut int, nontrivial bool) {
			if nontrivial {
				st.Distinct[inputHash^cfgHash*31^uint64(cut+7)*1000003^kit.Hash64([]byte(class))] = struct{}{}
			}
		}
		if valid {
			// every line boundary
			var cuts []int
			for i, b := range data {
				if b == '\n' && i+1 < len(data) {
					cuts = append(cuts, i+1)
				}
			}
			if len(data) > 16<<10 && len(cuts) > 256 {
				sel := map[int]bool{}
				for len(sel) < 256 {
					sel[cuts[r.Intn(len(cuts))]] = true
				}
				var cs []int
				for _, c := range cuts {
					if sel[c] {
						cs = append(cs, c)
					}
				}
				cuts = cs
				st.Info.Add("inputs-with-sampled-(not-exhaustive)-cuts", 1)
			}
			for _, k := range cuts {
				base := OneShot()
				base.TruncAt = k
				base.Family = "trunc-oneshot"
				plans := []Plan{base}
				for j := 0; j < 2; j++ {
					p := randomPlan(r, data[:k])
					p.TruncAt = k
					p.Family = "trunc-" + p.Family
					plans = append(plans, p)
				}
				for pi, plan := range plans {
					ok, class, detail, gotErr := c10One(cfg, data, plan, true, st)
					st.Evals++
					st.Families.Add(plan.Family, 1)
					st.Faults.Add("eof-at-line-boundary", 1)
					if gotErr {
						st.Probes.Add("cut-inside-multiline-construct", 1)
					}
					if pi == 0 {
						note("cut", k, gotErr)
					}
					logDigest(plan.hash())
					if !ok {
						viols = append(viols, mkC10Violation(it, cfg, data, plan, class, detail, k))
						logDigest(kit.Hash64([]byte(class)))
						break
					}
				}
				if len(viols) > 10 {
					return viols, dg
				}
			}
			if len(cuts) > 0 && it.Idx%173 == 0 && len(st.Samples) < 2 {
				st.Samples = append(st.Samples, map[string]any{"input": kit.Clip(string(data), 160), "variant": lang, "line_boundary_cuts_enumerated": clipInts(cuts, 20)})
			}
		}
		// position clause on arbitrary invalid inputs
		type cand struct {
			data []byte
			plan Plan
			how  string
		}
		var cands []cand
		if !valid {
			cands = append(cands, cand{data, OneShot(), "invalid-as-is"})
			if len(data) < 4096 {
				cands = append(cands, cand{data, oneByte(len(data)), "invalid-as-is/one-byte"})
			}
		}
		for j := 0; j < nrand && len(data) > 0; j++ {
			switch r.Intn(3) {
			case 0:
				p := OneShot()
				p.TruncAt = r.Intn(len(data))
				p.Family = "trunc-at-byte"
				cands = append(cands, cand{data, p, "trunc-at-byte"})
			case 1:
				s, how := mutate(r, string(data))
				cands = append(cands, cand{[]byte(s), OneShot(), how})
			case 2:
				s, how := mutate(r, string(data))
				p := randomPlan(r, []byte(s))
				if r.Chance(1, 2) && len(s) > 0 {
					p.TruncAt = r.Intn(len(s))
				}
				cands = append(cands, cand{[]byte(s), p, how + "+plan"})
			}
		}
		for _, c := range cands {
			ok, class, detail, gotErr := c10One(cfg, c.data, c.plan, false, st)
			st.Evals++
			st.Families.Add("position/"+c.plan.Family, 1)
			if c.plan.TruncAt >= 0 {
				st.Faults.Add("eof-at-arbitrary-byte", 1)
			} else if c.how != "invalid-as-is" && c.how != "invalid-as-is/one-byte" {
				st.Faults.Add("corrupted-stored-byte", 1)
			}
			note("pos"+c.how, c.plan.TruncAt, gotErr)
			logDigest(kit.Hash64(c.data) ^ c.plan.hash())
			if !ok {
				viols = append(viols, mkC10Violation(it, cfg, c.data, c.plan, class, detail, c.plan.TruncAt))
				logDigest(kit.Hash64([]byte(class)))
			}
		}
		if len(viols) > 10 {
			break
		}
	}
	return viols, dg
}

func replayC10(rep *Replay) *Violation {
	data := rep.input()
	cut := rep.Plan.TruncAt
	lineCut := false
	if cut > 0 && cut < len(data) && data[cut-1] == '\n' {
		// the incompleteness clause applies only if the whole input is valid
		ref := parseOneShot(rep.Cfg, data)
		lineCut = ref.Panic == "" && ref.Err == nil
	}
	ok, class, detail, _ := c10One(rep.Cfg, data, rep.Plan, lineCut, nil)
	if ok {
		return nil
	}
	it := &Item{Idx: rep.Run, Seed: rep.Seed, Origin: fmt.Sprint(rep.Extra["origin"])}
	v := mkC10Violation(it, rep.Cfg, data, rep.Plan, class, detail, cut)
	return &v
}
