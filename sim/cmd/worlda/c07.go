package main

import (
	"fmt"
	"os"
	"strings"
	"unicode/utf8"

	"verifsim/kit"
)

func init() {
	checks["C07"] = &checkDef{
		id:     "C07",
		level:  "exploration",
		run:    runC07,
		replay: replayC07,
		rule: "Each evaluation is one Parse of an input under one read plan of the simulated io.Reader, compared (reflect.DeepEqual of *File incl. every position and comment, or equality of the error value) with the one-shot bytes.Reader parse of the same input and parser configuration. " +
			"Inputs: committed corpus harvested from the repository's test tables x 5 variants x KeepComments on/off (+RecoverErrors/StopAt configurations), seeded grammar-generated programs per variant (some spliced/corrupted), and inputs padded so an interesting byte sits on the parser's 1024-byte buffer boundary. " +
			"Plans: EVERY single split point (enumerated for inputs <= 4 KiB), one byte at a time, and seeded plans (geometric, around/before interesting bytes, few splits, line mode, zero reads, EOF returned together with the last data). " +
			"A case is non-trivial if the plan actually split the input at least once or returned EOF together with data; distinct = distinct (input, configuration, plan) hashes.",
		assume: []string{
			"the one-shot parse from bytes.Reader is the reference the property names",
			"non-EOF read errors are outside the property and are not injected here",
			"sampling: generated inputs and seeded plans are a sample; single-split enumeration is complete per input <= 4 KiB",
		},
	}
}

func c07Configs(r *kit.Rand, tier string) []func(lang string) Cfg {
	cfgs := []func(string) Cfg{
		func(l string) Cfg { return Cfg{Lang: l, KeepComments: true} },
		func(l string) Cfg { return Cfg{Lang: l} },
	}
	// one extra configuration per item, drawn from the seed
	switch r.Intn(4) {
	case 0:
		cfgs = append(cfgs, func(l string) Cfg { return Cfg{Lang: l, KeepComments: true, Recover: 3} })
	case 1:
		stop := kit.Pick(r, []string{"$$", "foo", "}", "é", "éé", "é$", "日x", "done", "%", "ech", "EOF"})
		if os.Getenv("VERIF_NO_STOPAT") != "" { // development aid only
			break
		}
		cfgs = append(cfgs, func(l string) Cfg { return Cfg{Lang: l, KeepComments: true, StopAt: stop} })
	}
	return cfgs
}

// probeSplits records which rare lexer situations the actual splits hit.
func probeSplits(st *Stats, data []byte, splits []int) {
	for _, k := range splits {
		if k <= 0 || k >= len(data) {
			continue
		}
		a, b := data[k-1], data[k]
		if b >= 0x80 && !utf8.RuneStart(b) {
			st.Probes.Add("split-inside-multibyte-rune", 1)
		}
		if a == '\\' && b == '\n' {
			st.Probes.Add("split-between-backslash-and-newline", 1)
		}
		if a == '\\' && b == '\r' {
			st.Probes.Add("split-between-backslash-and-CR", 1)
		}
		if a == '\r' && b == '\n' {
			st.Probes.Add("split-between-CR-and-LF", 1)
		}
		if isOpByte(a) && isOpByte(b) {
			st.Probes.Add("split-inside-operator", 1)
		}
		if a == '$' && (b == '(' || b == '{' || b == '\'' || b == '"' || b == '[') {
			st.Probes.Add("split-after-dollar", 1)
		}
		if a == '<' && (b >= '0' && b <= '9' || b == '-') {
			st.Probes.Add("split-inside-zsh-range-or-redirect", 1)
		}
		if k >= 2 && data[k-2] == '$' && a == '{' {
			st.Probes.Add("split-after-param-open", 1)
		}
		if k%1024 <= 2 || k%1024 >= 1022 {
			st.Probes.Add("split-near-1024-boundary", 1)
		}
	}
}

func isOpByte(b byte) bool {
	switch b {
	case '<', '>', '&', '|', ';', '-', '(', ')', '=', '!':
		return true
	}
	return false
}

func mkC07Violation(it *Item, cfg Cfg, data []byte, plan Plan, class, detail string) Violation {
	rep := Replay{Property: "C07", World: "A", Seed: it.Seed, Run: it.Idx, Mode: "parse", Cfg: cfg, Plan: plan, Class: class, Detail: detail,
		Extra: map[string]any{"origin": it.Origin}}
	rep.setInput(data)
	key := class + ":" + cfg.Lang + ":" + kit.Digest(data)
	rep.Key = key
	return Violation{Class: class, Key: key, Detail: detail, Rep: rep}
}

func runC07(it *Item, tier string, st *Stats) ([]Violation, uint64) {
	r := kit.NewRand(it.Seed)
	data := it.Src
	n := len(data)
	var viols []Violation
	var dg uint64 = 1469598103934665603
	logDigest := func(x uint64) { dg = (dg ^ x) * 1099511628211 }
	nrand := 6
	if tier == "thorough" {
		nrand = 20
	}
	cfgFns := c07Configs(r.Fork("cfg"), tier)
	if strings.HasPrefix(it.Origin, "extra[") {
		// the hand-written inputs are few: run them under every option
		for _, stop := range []string{"$$", "foo", "}", "é", "éé", "é$", "日x", "done", "%", "ech", "EOF", ";", "#"} {
			stop := stop
			cfgFns = append(cfgFns, func(l string) Cfg { return Cfg{Lang: l, KeepComments: true, StopAt: stop} })
		}
		cfgFns = append(cfgFns, func(l string) Cfg { return Cfg{Lang: l, Recover: 5} })
	}
	inputHash := kit.Hash64(data)
	sampled := false
	for _, lang := range it.Langs {
		for ci, cf := range cfgFns {
			cfg := cf(lang)
			ref := parseOneShot(cfg, data)
			if ref.Panic != "" {
				st.Info.Add("panic-in-oneshot-parse(C06,unclaimed)", 1)
			}
			cfgHash := kit.Hash64([]byte(cfg.String()))
			var plans []Plan
			if ci == 0 || n <= 256 {
				// exhaustive single splits (for the first configuration of
				// every input, and for every configuration of small inputs)
				if n <= 4096 {
					for k := 1; k < n; k++ {
						plans = append(plans, singleSplit(k))
					}
				} else {
					for i := 0; i < 512; i++ {
						plans = append(plans, singleSplit(r.Range(1, n-1)))
					}
					for k := 1016; k < n && k < 8*1024; k += 1024 {
						for d := 0; d < 16 && k+d < n; d++ {
							plans = append(plans, singleSplit(k+d))
						}
					}
				}
			}
			if n <= 16<<10 {
				plans = append(plans, oneByte(n))
			}
			e := OneShot()
			e.EOFWithData = true
			e.Family = "oneshot+eof-with-data"
			plans = append(plans, e)
			for i := 0; i < nrand; i++ {
				plans = append(plans, randomPlan(r, data))
			}
			if ci == 0 && n > 0 {
				// Streams cut short by a read error: the same bytes followed
				// by the same error, delivered in different ways (the error
				// alone, or together with the last bytes; whole, byte by byte,
				// random chunks) must give the same result.
				ks := []int{n, r.Range(1, n), r.Range(1, n)}
				if tier == "thorough" {
					for i := 0; i < 6; i++ {
						ks = append(ks, r.Range(1, n))
					}
				}
				for _, k := range ks {
					base := OneShot()
					base.ErrAt = k
					eref, _ := parseWith(cfg, data, base)
					var eplans []Plan
					wd := base
					wd.ErrWithData, wd.Family = true, "read-error-with-last-data"
					eplans = append(eplans, wd)
					if k <= 4096 {
						ob := oneByte(k)
						ob.ErrAt, ob.Family = k, "read-error+one-byte"
						eplans = append(eplans, ob)
					}
					for i := 0; i < 3; i++ {
						rp := randomPlan(r, data[:k])
						rp.EOFWithData = false
						rp.ErrAt, rp.ErrWithData, rp.Family = k, r.Intn(2) == 0, "read-error+"+rp.Family
						eplans = append(eplans, rp)
					}
					for _, plan := range eplans {
						got, rd := parseWith(cfg, data, plan)
						st.Evals++
						st.Families.Add(plan.Family, 1)
						st.Distinct[inputHash^cfgHash*31^plan.hash()*131] = struct{}{}
						st.Faults.Add("read-error", 1)
						if plan.ErrWithData {
							st.Faults.Add("read-error-with-last-data", 1)
						}
						st.Faults.Add("short-read", int64(len(rd.Splits)))
						if got.Err == errInjected {
							st.Probes.Add("read-error-surfaced-as-the-parse-error", 1)
						}
						ok, class, detail := comparePR(eref, got)
						logDigest(plan.hash())
						if got.Err != nil {
							logDigest(kit.Hash64([]byte(errString(got.Err))))
						}
						if !ok {
							viols = append(viols, mkC07Violation(it, cfg, data, plan, "read-error:"+class, detail))
							if len(viols) > 20 {
								return viols, dg
							}
						}
					}
				}
			}
			for _, plan := range plans {
				got, rd := parseWith(cfg, data, plan)
				st.Evals++
				st.Families.Add(plan.Family, 1)
				if len(rd.Splits) > 0 || (plan.EOFWithData && n > 0) {
					st.Distinct[inputHash^cfgHash*31^plan.hash()*131] = struct{}{}
				}
				if rd.Zeros > 0 {
					st.Faults.Add("zero-length-read", int64(rd.Zeros))
				}
				if plan.EOFWithData && n > 0 {
					st.Faults.Add("eof-with-last-data", 1)
					if data[n-1] != '\n' {
						st.Probes.Add("eof-with-data-on-input-without-trailing-newline", 1)
					}
				}
				st.Faults.Add("short-read", int64(len(rd.Splits)))
				if plan.Family != "single-split" || r.Intn(16) == 0 {
					probeSplits(st, data, rd.Splits)
				} else if len(rd.Splits) == 1 {
					probeSplits(st, data, rd.Splits)
				}
				ok, class, detail := comparePR(ref, got)
				logDigest(plan.hash())
				logDigest(uint64(len(rd.Splits)))
				if got.Err != nil {
					logDigest(kit.Hash64([]byte(errString(got.Err))))
				}
				if !ok {
					viols = append(viols, mkC07Violation(it, cfg, data, plan, class, detail))
					logDigest(kit.Hash64([]byte(class)))
					if len(viols) > 20 {
						return viols, dg
					}
				}
				if !sampled && len(st.Samples) < 1 && len(rd.Splits) > 1 && it.Idx%97 == 0 {
					sampled = true
					st.Samples = append(st.Samples, map[string]any{
						"input": kit.Clip(string(data), 200), "origin": it.Origin, "cfg": cfg.String(), "plan": plan.String(),
						"actual_splits": clipInts(rd.Splits, 16), "outcome": outcomeString(got),
					})
				}
			}
		}
	}
	return viols, dg
}

func outcomeString(p PR) string {
	switch {
	case p.Panic != "":
		return "panic: " + p.Panic
	case p.Err != nil:
		return "error " + errString(p.Err)
	}
	return fmt.Sprintf("parsed, %d top-level statements", len(p.F.Stmts))
}

func replayC07(rep *Replay) *Violation {
	data := rep.input()
	ref := parseOneShot(rep.Cfg, data)
	pre := ""
	if rep.Plan.ErrAt >= 0 {
		base := OneShot()
		base.ErrAt = rep.Plan.ErrAt
		ref, _ = parseWith(rep.Cfg, data, base)
		pre = "read-error:"
	}
	got, _ := parseWith(rep.Cfg, data, rep.Plan)
	ok, class, detail := comparePR(ref, got)
	if ok {
		return nil
	}
	class = pre + class
	it := &Item{Idx: rep.Run, Seed: rep.Seed, Origin: fmt.Sprint(rep.Extra["origin"])}
	v := mkC07Violation(it, rep.Cfg, data, rep.Plan, class, detail)
	return &v
}
