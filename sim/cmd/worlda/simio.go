package main

import (
	"errors"
	"fmt"
	"io"
	"strings"

	"verifsim/kit"
)

// Plan is the schedule of results a simulated io.Reader returns. It is the
// whole "schedule" of a World-A run.
type Plan struct {
	// Chunks are the sizes of successive short reads; 0 means a legal
	// (0, nil) read. Once exhausted the rest is delivered in reads as large
	// as the caller's buffer allows.
	Chunks []int `json:"chunks"`
	// EOFWithData: the read that delivers the last byte also returns io.EOF.
	EOFWithData bool `json:"eof_with_data,omitempty"`
	// TruncAt >= 0: fault — the stream ends (EOF) after that many bytes.
	TruncAt int `json:"trunc_at"`
	// ErrAt >= 0: fault — a non-EOF error is returned after that many bytes.
	ErrAt int `json:"err_at"`
	// ErrWithData: the read that delivers the last byte before ErrAt also
	// returns the error, as testing/iotest.DataErrReader does.
	ErrWithData bool `json:"err_with_data,omitempty"`
	// LineMode: every read delivers at most up to and including the next
	// newline (a terminal or line-buffered pipe), in addition to Chunks.
	LineMode bool   `json:"line_mode,omitempty"`
	Family   string `json:"family,omitempty"`
}

func OneShot() Plan { return Plan{TruncAt: -1, ErrAt: -1, Family: "oneshot"} }

func (p Plan) String() string {
	var sb strings.Builder
	fmt.Fprintf(&sb, "%s chunks=%v", p.Family, clipInts(p.Chunks, 24))
	if p.EOFWithData {
		sb.WriteString(" eof-with-data")
	}
	if p.TruncAt >= 0 {
		fmt.Fprintf(&sb, " trunc@%d", p.TruncAt)
	}
	if p.ErrAt >= 0 {
		fmt.Fprintf(&sb, " err@%d", p.ErrAt)
		if p.ErrWithData {
			sb.WriteString("(with the last data)")
		}
	}
	if p.LineMode {
		sb.WriteString(" line-mode")
	}
	return sb.String()
}

func clipInts(xs []int, n int) string {
	if len(xs) <= n {
		return fmt.Sprint(xs)
	}
	return fmt.Sprintf("%v…(+%d)", xs[:n], len(xs)-n)
}

func (p Plan) hash() uint64 {
	b := make([]byte, 0, len(p.Chunks)*2+16)
	for _, c := range p.Chunks {
		b = append(b, byte(c), byte(c>>8))
	}
	b = append(b, byte(p.TruncAt), byte(p.TruncAt>>8), byte(p.ErrAt), byte(p.ErrAt>>8))
	if p.EOFWithData {
		b = append(b, 1)
	}
	if p.LineMode {
		b = append(b, 2)
	}
	if p.ErrWithData {
		b = append(b, 3)
	}
	return kit.Hash64(b)
}

var errInjected = errors.New("verif: injected read error")

// SimReader executes a Plan over data. It never returns more than len(p)
// bytes and always makes progress, so every behaviour is one a real
// io.Reader may legally show.
type SimReader struct {
	data []byte
	plan Plan
	pos  int
	ci   int
	rem  int
	// Splits records the offsets at which one read ended and the next began
	// (the actual schedule, after clamping to the caller's buffer).
	Splits []int
	Reads  int
	Zeros  int
	// OnRead, if set, is called at the start of every Read with the number of
	// bytes delivered so far: the instant at which the consumer is blocked.
	OnRead func(delivered int)
	sawEOF bool
}

func NewSimReader(data []byte, plan Plan) *SimReader {
	return &SimReader{data: data, plan: plan}
}

func (s *SimReader) Delivered() int { return s.pos }

func (s *SimReader) Read(p []byte) (int, error) {
	if s.OnRead != nil {
		s.OnRead(s.pos)
	}
	s.Reads++
	if len(p) == 0 {
		return 0, nil
	}
	limit := len(s.data)
	if s.plan.TruncAt >= 0 && s.plan.TruncAt < limit {
		limit = s.plan.TruncAt
	}
	if s.plan.ErrAt >= 0 && s.pos >= s.plan.ErrAt {
		return 0, errInjected
	}
	if s.pos >= limit {
		s.sawEOF = true
		return 0, io.EOF
	}
	n := s.rem
	if n == 0 {
		if s.ci < len(s.plan.Chunks) {
			n = s.plan.Chunks[s.ci]
			s.ci++
			if n == 0 {
				s.Zeros++
				return 0, nil
			}
		} else {
			n = 1 << 30
		}
	}
	want := n
	n = min(n, len(p), limit-s.pos)
	if s.plan.ErrAt >= 0 {
		n = min(n, s.plan.ErrAt-s.pos)
	}
	if s.plan.LineMode {
		for i := 0; i < n; i++ {
			if s.data[s.pos+i] == '\n' {
				n = i + 1
				want = n
				break
			}
		}
	}
	if want < 1<<30 {
		s.rem = want - n
	}
	copy(p, s.data[s.pos:s.pos+n])
	s.pos += n
	if s.pos < limit {
		s.Splits = append(s.Splits, s.pos)
	}
	if s.plan.ErrAt >= 0 && s.plan.ErrWithData && s.pos == s.plan.ErrAt && n > 0 {
		return n, errInjected
	}
	if s.plan.EOFWithData && s.pos == limit {
		s.sawEOF = true
		return n, io.EOF
	}
	return n, nil
}

// SimWriter fails or short-writes at a chosen byte; used only to leave a
// Printer in a dirty state in reuse histories.
type SimWriter struct {
	FailAt  int // -1: never
	ShortAt int // -1: never
	n       int
	Buf     []byte
}

func (w *SimWriter) Write(p []byte) (int, error) {
	if w.FailAt >= 0 && w.n+len(p) > w.FailAt {
		k := max(w.FailAt-w.n, 0)
		w.Buf = append(w.Buf, p[:k]...)
		w.n += k
		return k, errInjected
	}
	if w.ShortAt >= 0 && w.n+len(p) > w.ShortAt {
		k := max(w.ShortAt-w.n, 0)
		w.Buf = append(w.Buf, p[:k]...)
		w.n += k
		w.ShortAt = -1
		return k, io.ErrShortWrite
	}
	w.Buf = append(w.Buf, p...)
	w.n += len(p)
	return len(p), nil
}

// ------------------------------------------------------------ plan families

const interesting = "\\\r\n$(<>=~^@*+?!`{&|;-#'\")"

func isInteresting(b byte) bool {
	return b >= 0x80 || strings.IndexByte(interesting, b) >= 0
}

// splitsToChunks turns a sorted list of absolute split offsets into chunk sizes.
func splitsToChunks(splits []int) []int {
	out := make([]int, 0, len(splits))
	prev := 0
	for _, s := range splits {
		if s > prev {
			out = append(out, s-prev)
			prev = s
		}
	}
	return out
}

func singleSplit(k int) Plan {
	p := OneShot()
	p.Chunks = []int{k}
	p.Family = "single-split"
	return p
}

func oneByte(n int) Plan {
	p := OneShot()
	p.Chunks = make([]int, n)
	for i := range p.Chunks {
		p.Chunks[i] = 1
	}
	p.Family = "one-byte"
	return p
}

// randomPlan draws a plan of one of the seeded families for data.
func randomPlan(r *kit.Rand, data []byte) Plan {
	n := len(data)
	p := OneShot()
	switch r.Intn(6) {
	case 0: // geometric chunk sizes
		p.Family = "geometric"
		mean := kit.Pick(r, []int{1, 2, 3, 5, 8, 16, 64, 300})
		for got := 0; got < n; {
			c := 1
			for c < 4096 && r.Intn(mean+1) != 0 {
				c++
			}
			p.Chunks = append(p.Chunks, c)
			got += c
		}
	case 1: // chunks that end 0..3 bytes after an interesting byte
		p.Family = "after-interesting"
		var splits []int
		for i := 0; i < n; i++ {
			if isInteresting(data[i]) && r.Chance(2, 3) {
				splits = append(splits, min(n, i+1+r.Intn(4)))
			}
		}
		splits = sortedUnique(splits)
		p.Chunks = splitsToChunks(splits)
	case 2: // chunks that end just before an interesting byte
		p.Family = "before-interesting"
		var splits []int
		for i := 1; i < n; i++ {
			if isInteresting(data[i]) && r.Chance(1, 2) {
				splits = append(splits, i)
			}
		}
		p.Chunks = splitsToChunks(splits)
	case 3: // two or three random splits
		p.Family = "few-splits"
		var splits []int
		for i := r.Range(2, 3); i > 0 && n > 1; i-- {
			splits = append(splits, r.Range(1, n-1))
		}
		p.Chunks = splitsToChunks(sortedUnique(splits))
	case 4: // one byte at a time around interesting bytes, big elsewhere
		p.Family = "dribble-near-interesting"
		var splits []int
		for i := 0; i < n; i++ {
			if isInteresting(data[i]) {
				for j := max(1, i-1); j <= min(n-1, i+3); j++ {
					splits = append(splits, j)
				}
			}
		}
		p.Chunks = splitsToChunks(sortedUnique(splits))
	case 5: // line at a time, optionally further split
		p.Family = "lines"
		p.LineMode = true
		if r.Chance(1, 2) {
			for got := 0; got < n; {
				c := r.Range(1, 12)
				p.Chunks = append(p.Chunks, c)
				got += c
			}
		}
	}
	if r.Chance(1, 3) {
		p.EOFWithData = true
	}
	if r.Chance(1, 4) {
		// sprinkle legal (0,nil) reads
		var out []int
		for _, c := range p.Chunks {
			if r.Chance(1, 6) {
				out = append(out, 0)
			}
			out = append(out, c)
		}
		if r.Chance(1, 2) {
			out = append(out, 0)
		}
		p.Chunks = out
		p.Family += "+zero"
	}
	return p
}

func sortedUnique(xs []int) []int {
	if len(xs) < 2 {
		return xs
	}
	// insertion sort is fine for the sizes here, but inputs can be large
	sortInts(xs)
	out := xs[:1]
	for _, x := range xs[1:] {
		if x != out[len(out)-1] {
			out = append(out, x)
		}
	}
	return out
}
