package main

import (
	"bytes"
	"fmt"
	"io"
	"reflect"
	"sort"
	"strings"

	"mvdan.cc/sh/v3/syntax"
)

var allLangs = []string{"bash", "posix", "mksh", "bats", "zsh"}

func langOf(s string) syntax.LangVariant {
	var l syntax.LangVariant
	if err := l.Set(s); err != nil {
		panic(err)
	}
	return l
}

// Cfg is the parser configuration of a run; it is fixed across the
// reference and the planned execution.
type Cfg struct {
	Lang         string `json:"lang"`
	KeepComments bool   `json:"keep_comments"`
	Recover      int    `json:"recover_errors,omitempty"`
	StopAt       string `json:"stop_at,omitempty"`
}

func (c Cfg) String() string {
	s := c.Lang
	if c.KeepComments {
		s += "+comments"
	}
	if c.Recover > 0 {
		s += fmt.Sprintf("+recover%d", c.Recover)
	}
	if c.StopAt != "" {
		s += "+stopat:" + c.StopAt
	}
	return s
}

func (c Cfg) parser() *syntax.Parser {
	opts := []syntax.ParserOption{syntax.Variant(langOf(c.Lang)), syntax.KeepComments(c.KeepComments)}
	if c.Recover > 0 {
		opts = append(opts, syntax.RecoverErrors(c.Recover))
	}
	if c.StopAt != "" {
		opts = append(opts, syntax.StopAt(c.StopAt))
	}
	return syntax.NewParser(opts...)
}

// PR is the outcome of one Parse.
type PR struct {
	F     *syntax.File
	Err   error
	Panic string
}

func parseUsing(p *syntax.Parser, rd io.Reader) (res PR) {
	defer func() {
		if r := recover(); r != nil {
			res = PR{Panic: fmt.Sprint(r)}
		}
	}()
	f, err := p.Parse(rd, "")
	return PR{F: f, Err: err}
}

func parseWith(cfg Cfg, data []byte, plan Plan) (PR, *SimReader) {
	rd := NewSimReader(data, plan)
	return parseUsing(cfg.parser(), rd), rd
}

func parseOneShot(cfg Cfg, data []byte) PR {
	return parseUsing(cfg.parser(), bytes.NewReader(data))
}

func errString(err error) string {
	if err == nil {
		return "<nil>"
	}
	return fmt.Sprintf("%T{%s}", err, errFields(err))
}

func errFields(err error) string {
	switch e := err.(type) {
	case syntax.ParseError:
		return fmt.Sprintf("pos=%d:%d(off %d) incomplete=%v text=%q", e.Pos.Line(), e.Pos.Col(), e.Pos.Offset(), e.Incomplete, e.Text)
	case syntax.LangError:
		return fmt.Sprintf("pos=%d:%d(off %d) feature=%q langs=%v used=%v", e.Pos.Line(), e.Pos.Col(), e.Pos.Offset(), e.Feature, e.Langs, e.LangUsed)
	}
	return err.Error()
}

func dump(n syntax.Node) string {
	if n == nil || reflect.ValueOf(n).IsNil() {
		return "<nil>"
	}
	var sb strings.Builder
	dumpValue(&sb, reflect.ValueOf(n), 0, "")
	return sb.String()
}

var posType = reflect.TypeOf(syntax.Pos{})

// dumpValue renders a tree with every position, one field per line, so that
// firstDiff can name the first field that differs.
func dumpValue(sb *strings.Builder, v reflect.Value, depth int, label string) {
	ind := strings.Repeat(" ", depth)
	if depth > 200 {
		fmt.Fprintf(sb, "%s%s<too deep>\n", ind, label)
		return
	}
	switch v.Kind() {
	case reflect.Ptr, reflect.Interface:
		if v.IsNil() {
			fmt.Fprintf(sb, "%s%snil\n", ind, label)
			return
		}
		dumpValue(sb, v.Elem(), depth, label)
	case reflect.Struct:
		if v.Type() == posType {
			p := v.Interface().(syntax.Pos)
			fmt.Fprintf(sb, "%s%sPos{off=%d line=%d col=%d}\n", ind, label, p.Offset(), p.Line(), p.Col())
			return
		}
		fmt.Fprintf(sb, "%s%s%s{\n", ind, label, v.Type().Name())
		for i := 0; i < v.NumField(); i++ {
			f := v.Type().Field(i)
			if !f.IsExported() {
				continue
			}
			dumpValue(sb, v.Field(i), depth+1, f.Name+": ")
		}
		fmt.Fprintf(sb, "%s}\n", ind)
	case reflect.Slice:
		if v.IsNil() {
			fmt.Fprintf(sb, "%s%snil-slice\n", ind, label)
			return
		}
		fmt.Fprintf(sb, "%s%s[len %d\n", ind, label, v.Len())
		for i := 0; i < v.Len(); i++ {
			dumpValue(sb, v.Index(i), depth+1, fmt.Sprintf("[%d] ", i))
		}
		fmt.Fprintf(sb, "%s]\n", ind)
	case reflect.String:
		fmt.Fprintf(sb, "%s%s%q\n", ind, label, v.String())
	default:
		fmt.Fprintf(sb, "%s%s%v\n", ind, label, v.Interface())
	}
}

func firstDiff(a, b string) string {
	la, lb := strings.Split(a, "\n"), strings.Split(b, "\n")
	for i := 0; i < len(la) || i < len(lb); i++ {
		var x, y string
		if i < len(la) {
			x = la[i]
		} else {
			x = "<end>"
		}
		if i < len(lb) {
			y = lb[i]
		} else {
			y = "<end>"
		}
		if x != y {
			ctx := ""
			if i > 0 {
				ctx = strings.TrimSpace(la[i-1]) + " / "
			}
			return fmt.Sprintf("dump line %d: %sreference %q vs observed %q", i+1, ctx, strings.TrimSpace(x), strings.TrimSpace(y))
		}
	}
	return "dumps equal (difference only visible to reflect.DeepEqual)"
}

// comparePR decides the C07 oracle between the reference outcome and the
// outcome under a plan. ok=true means the property held for this pair.
// skipped=true means the pair is outside the property (both panicked).
func comparePR(ref, got PR) (ok bool, class, detail string) {
	switch {
	case ref.Panic != "" && got.Panic != "":
		return true, "", ""
	case ref.Panic != "":
		// A panic in the reference but not under the plan still means the
		// results differ; report it with its own class.
		return false, "panic-only-oneshot", ref.Panic
	case got.Panic != "":
		return false, "panic-under-plan", got.Panic
	}
	if (ref.Err == nil) != (got.Err == nil) {
		return false, "ok-vs-error", fmt.Sprintf("reference err=%s observed err=%s", errString(ref.Err), errString(got.Err))
	}
	if ref.Err != nil {
		if !reflect.DeepEqual(ref.Err, got.Err) {
			return false, "error-differs", fmt.Sprintf("reference %s observed %s", errString(ref.Err), errString(got.Err))
		}
		return true, "", ""
	}
	if !reflect.DeepEqual(ref.F, got.F) {
		return false, "tree-differs", firstDiff(dump(ref.F), dump(got.F))
	}
	return true, "", ""
}

func stmtsEqual(a, b []*syntax.Stmt) (bool, string) {
	if len(a) != len(b) {
		return false, fmt.Sprintf("%d statements vs %d", len(a), len(b))
	}
	for i := range a {
		if !reflect.DeepEqual(a[i], b[i]) {
			return false, fmt.Sprintf("statement %d: %s", i, firstDiff(dump(a[i]), dump(b[i])))
		}
	}
	return true, ""
}

func sortInts(xs []int) { sort.Ints(xs) }

// lineColAt computes the 1-based line and byte column that offset off has
// in data, the way the parser counts them ("\n" ends a line).
func lineColAt(data []byte, off int) (line, col int) {
	line, col = 1, 1
	for i := 0; i < off && i < len(data); i++ {
		if data[i] == '\n' {
			line++
			col = 1
		} else {
			col++
		}
	}
	return
}
