package main

import (
	"bytes"
	"encoding/base64"
	"fmt"
	"os"
	"reflect"
	"strconv"
	"strings"

	"mvdan.cc/sh/v3/syntax"
	"verifsim/kit"
)

func init() {
	checks["C08"] = &checkDef{
		id:     "C08",
		level:  "exploration",
		run:    runC08,
		replay: replayC08,
		rule: "Three sub-oracles per (input, variant) over the simulated reader/writer. (1) StmtsSeq under seeded read plans yields exactly Parse(whole).Stmts (DeepEqual incl. positions). " +
			"(2) InteractiveSeq fed one line per read through a pipe that stays open: at EVERY instant the parser blocks on the pipe and at EOF, the non-incomplete yields are Parse(prefix).Stmts whenever the delivered prefix is a finished program (metamorphic test: appending a fresh command yields exactly one more statement and leaves the others unchanged), the union of yields is a prefix of and finally equals Parse(whole).Stmts, and Incomplete()==true is never reported at a finished prefix. " +
			"(3) Reuse histories: a Parser (fixed options) that went through 1..6 earlier uses (Parse/StmtsSeq/WordsSeq/Document/Arithmetic/InteractiveSeq of other inputs: valid, invalid, truncated by an EOF fault, hit by an injected read error mid-token, or iterator abandoned after j items) gives the same tree or error as a fresh parser under the same read plan; a Printer (fixed options) whose earlier Prints hit injected write errors/short writes prints byte-identically to a fresh one. " +
			"Non-trivial: the interactive run had at least one blocking instant with a finished prefix / the reuse history contained at least one dirtying step (error, truncation, abandonment, write fault); distinct = distinct (input, cfg, plan/history) hashes.",
		assume: []string{
			"only parseable programs gate sub-oracles (1) and (2), as the property quantifies over parseable programs; observations on erroring inputs are tallied as non-gating info",
			"the converse 'unfinished => Incomplete()' is not asserted (the statement says 'only while')",
			"options of a reused Parser/Printer are fixed per history",
		},
	}
}

// HistStep is one earlier use of a Parser or Printer in a reuse history.
type HistStep struct {
	Op           string `json:"op"` // parse stmts words document arithmetic interactive | print
	InputB64     string `json:"input_b64"`
	InputQ       string `json:"input_quoted,omitempty"`
	Plan         Plan   `json:"plan"`
	AbandonAfter int    `json:"abandon_after"` // -1: consume everything
	// printer steps
	Node    string `json:"node,omitempty"` // file stmt word command
	FailAt  int    `json:"fail_at"`
	ShortAt int    `json:"short_at"`
	Lang    string `json:"lang,omitempty"`
}

func (h *HistStep) input() []byte {
	b, _ := base64.StdEncoding.DecodeString(h.InputB64)
	return b
}

func (h *HistStep) setInput(b []byte) {
	h.InputB64 = base64.StdEncoding.EncodeToString(b)
	h.InputQ = strconv.Quote(kit.Clip(string(b), 200))
}

// ------------------------------------------------------------------ (1) StmtsSeq

type seqResult struct {
	AtYield []string // dump of each statement taken when it was yielded
	Stmts   []*syntax.Stmt
	Err     error
	Panic   string
}

func stmtsSeqWith(p *syntax.Parser, rd *SimReader, abandonAfter int) (res seqResult) {
	defer func() {
		if r := recover(); r != nil {
			res.Panic = fmt.Sprint(r)
		}
	}()
	for s, err := range p.StmtsSeq(rd) {
		if err != nil {
			res.Err = err
			break
		}
		res.Stmts = append(res.Stmts, s)
		// what the consumer sees at the moment of the yield (it may run the
		// statement right away, as an interpreter would)
		res.AtYield = append(res.AtYield, dump(s))
		if abandonAfter >= 0 && len(res.Stmts) > abandonAfter {
			break
		}
	}
	return res
}

func checkStmtsSeq(cfg Cfg, data []byte, plan Plan, ref PR) (ok bool, class, detail string, rd *SimReader) {
	rd = NewSimReader(data, plan)
	got := stmtsSeqWith(cfg.parser(), rd, -1)
	if got.Panic != "" {
		return false, "stmtsseq-panic", got.Panic, rd
	}
	if got.Err != nil {
		return false, "stmtsseq-error-on-parseable", errString(got.Err), rd
	}
	if eq, d := stmtsEqual(ref.F.Stmts, got.Stmts); !eq {
		return false, "stmtsseq-differs", d, rd
	}
	// The statement must already be the one Parse returns when it is
	// yielded, not only once the iterator has finished.
	for i, s := range ref.F.Stmts {
		if want := dump(s); i < len(got.AtYield) && got.AtYield[i] != want {
			return false, "stmtsseq-yielded-before-complete", fmt.Sprintf("statement %d as it was when yielded differs from Parse's: %s", i, firstDiff(want, got.AtYield[i])), rd
		}
	}
	return true, "", "", rd
}

// ------------------------------------------------------------------ (2) InteractiveSeq

type iYield struct {
	Delivered  int
	Incomplete bool
	N          int // number of statements carried
}

type interactiveRun struct {
	Yields []iYield
	Stmts  []*syntax.Stmt // flattened non-incomplete yields
	Err    error
	Panic  string
	// countAt[i] = len(Stmts) at the i-th blocking instant
	Instants []int // delivered offsets of blocking instants
	CountAt  []int
}

func runInteractive(p *syntax.Parser, rd *SimReader, stopAfterYields int) (res interactiveRun) {
	defer func() {
		if r := recover(); r != nil {
			res.Panic = fmt.Sprint(r)
		}
	}()
	rd.OnRead = func(delivered int) {
		res.Instants = append(res.Instants, delivered)
		res.CountAt = append(res.CountAt, len(res.Stmts))
	}
	n := 0
	for stmts, err := range p.InteractiveSeq(rd) {
		if err != nil {
			res.Err = err
			break
		}
		inc := p.Incomplete()
		res.Yields = append(res.Yields, iYield{Delivered: rd.Delivered(), Incomplete: inc, N: len(stmts)})
		if !inc {
			res.Stmts = append(res.Stmts, stmts...)
		}
		n++
		if stopAfterYields >= 0 && n > stopAfterYields {
			break
		}
	}
	return res
}

// finished implements the metamorphic "is this delivered prefix a finished
// program?" test; it returns the statements of the prefix when it is.
func finished(cfg Cfg, prefix []byte) ([]*syntax.Stmt, bool) {
	// A prefix whose last newline is escaped is a line the user has not
	// finished typing ("a;\" + newline): a shell shows its continuation
	// prompt and runs nothing yet, even though every statement so far is
	// complete. The metamorphic test below cannot see that (the appended
	// command becomes a new statement), so such instants are not judged.
	if endsWithEscapedNewline(prefix) {
		return nil, false
	}
	a := parseOneShot(cfg, prefix)
	if a.Panic != "" || a.Err != nil {
		return nil, false
	}
	ext := append(append([]byte{}, prefix...), []byte("ZZZ9\n")...)
	b := parseOneShot(cfg, ext)
	if b.Panic != "" || b.Err != nil {
		return nil, false
	}
	if len(b.F.Stmts) != len(a.F.Stmts)+1 {
		return nil, false
	}
	for i := range a.F.Stmts {
		if !reflect.DeepEqual(a.F.Stmts[i], b.F.Stmts[i]) {
			return nil, false
		}
	}
	last := b.F.Stmts[len(b.F.Stmts)-1]
	if int(last.Pos().Offset()) != len(prefix) {
		return nil, false
	}
	return a.F.Stmts, true
}

// endsWithEscapedNewline reports whether b ends in a newline (or CR LF)
// preceded by an odd number of backslashes.
func endsWithEscapedNewline(b []byte) bool {
	n := len(b)
	if n == 0 || b[n-1] != '\n' {
		return false
	}
	n--
	if n > 0 && b[n-1] == '\r' {
		n--
	}
	k := 0
	for n-k > 0 && b[n-k-1] == '\\' {
		k++
	}
	return k%2 == 1
}

func checkInteractive(cfg Cfg, data []byte, plan Plan, ref PR, st *Stats) (ok bool, class, detail string, nontrivial bool) {
	rd := NewSimReader(data, plan)
	run := runInteractive(cfg.parser(), rd, -1)
	if run.Panic != "" {
		return false, "interactive-panic", run.Panic, false
	}
	if run.Err != nil {
		return false, "interactive-error-on-parseable", errString(run.Err), false
	}
	whole := ref.F.Stmts
	// (a) at the end the yields are the statements of the program
	if eq, d := stmtsEqual(whole, run.Stmts); !eq {
		cl := "interactive-final-differs"
		if len(run.Stmts) < len(whole) {
			if eq2, _ := stmtsEqual(whole[:len(run.Stmts)], run.Stmts); eq2 {
				cl = "interactive-statements-lost-at-eof"
			}
		}
		return false, cl, d, false
	}
	// (b)+(c) at blocking instants
	type instInfo struct {
		stmts []*syntax.Stmt
		fin   bool
		done  bool
	}
	cache := map[int]*instInfo{}
	info := func(off int) *instInfo {
		if c, ok := cache[off]; ok {
			return c
		}
		c := &instInfo{done: true}
		c.stmts, c.fin = finished(cfg, data[:off])
		cache[off] = c
		return c
	}
	budget := 48 // prefix checks per run (each costs two parses of the prefix)
	step := 1
	if len(run.Instants) > budget {
		step = len(run.Instants)/budget + 1
	}
	for i := 0; i < len(run.Instants); i += step {
		off := run.Instants[i]
		if off == 0 || off > len(data) || data[off-1] != '\n' {
			continue // only instants at which the delivered text ends a line
		}
		c := info(off)
		if !c.fin {
			st.Probes.Add("interactive-instant-with-unfinished-prefix", 1)
			continue
		}
		nontrivial = true
		st.Probes.Add("interactive-instant-with-finished-prefix", 1)
		if run.CountAt[i] != len(c.stmts) {
			return false, "interactive-blocked-with-unyielded-statements",
				fmt.Sprintf("blocked on the pipe after %d bytes (%s): %d statements yielded so far, but the delivered text is a finished program of %d statements", off, strconv.Quote(kit.Clip(string(data[max(0, off-60):off]), 80)), run.CountAt[i], len(c.stmts)), nontrivial
		}
	}
	for _, y := range run.Yields {
		if !y.Incomplete {
			continue
		}
		st.Probes.Add("interactive-callback-with-Incomplete-true", 1)
		off := y.Delivered
		if off == 0 || off > len(data) || data[off-1] != '\n' {
			continue
		}
		if len(cache) > 2*budget {
			break
		}
		if c := info(off); c.fin {
			return false, "interactive-incomplete-reported-at-finished-prefix",
				fmt.Sprintf("Incomplete()==true at a callback after %d bytes, but the delivered text %s is a finished program", off, strconv.Quote(kit.Clip(string(data[max(0, off-60):off]), 80))), true
		}
	}
	return true, "", "", nontrivial
}

// ------------------------------------------------------------------ (3) reuse

func applyParserStep(p *syntax.Parser, h *HistStep, st *Stats) {
	defer func() {
		if r := recover(); r != nil && st != nil {
			st.Info.Add("panic-in-history-step(C06,unclaimed)", 1)
		}
	}()
	rd := NewSimReader(h.input(), h.Plan)
	if debugHist {
		fmt.Fprintf(os.Stderr, "HIST op=%s plan=%s input=%s\n", h.Op, h.Plan, strconv.Quote(string(h.input())))
	}
	dirty := func(kind string) {
		if st != nil {
			st.Faults.Add(kind, 1)
		}
	}
	switch h.Op {
	case "parse":
		_, err := p.Parse(rd, "hist")
		if err != nil {
			dirty("history-step-ended-in-error")
		}
	case "stmts":
		n := 0
		for _, err := range p.StmtsSeq(rd) {
			if err != nil {
				dirty("history-step-ended-in-error")
				break
			}
			n++
			if h.AbandonAfter >= 0 && n > h.AbandonAfter {
				dirty("history-iterator-abandoned")
				break
			}
		}
	case "words":
		n := 0
		for _, err := range p.WordsSeq(rd) {
			if err != nil {
				dirty("history-step-ended-in-error")
				break
			}
			n++
			if h.AbandonAfter >= 0 && n > h.AbandonAfter {
				dirty("history-iterator-abandoned")
				break
			}
		}
	case "document":
		if _, err := p.Document(rd); err != nil {
			dirty("history-step-ended-in-error")
		}
	case "arithmetic":
		if _, err := p.Arithmetic(rd); err != nil {
			dirty("history-step-ended-in-error")
		}
	case "interactive":
		n := 0
		for _, err := range p.InteractiveSeq(rd) {
			if err != nil {
				dirty("history-step-ended-in-error")
				break
			}
			n++
			if h.AbandonAfter >= 0 && n > h.AbandonAfter {
				dirty("history-iterator-abandoned")
				break
			}
		}
	}
	if h.Plan.TruncAt >= 0 && st != nil {
		st.Faults.Add("history-input-truncated(EOF fault)", 1)
	}
	if h.Plan.ErrAt >= 0 && st != nil {
		st.Faults.Add("history-read-error-injected", 1)
	}
}

func genParserHistory(r *kit.Rand, pool func() []byte) []HistStep {
	n := r.Range(1, 6)
	var hist []HistStep
	for i := 0; i < n; i++ {
		h := HistStep{Op: kit.Pick(r, []string{"parse", "parse", "parse", "stmts", "stmts", "words", "document", "arithmetic", "interactive"}), AbandonAfter: -1, FailAt: -1, ShortAt: -1}
		in := pool()
		switch r.Intn(4) {
		case 0:
			s, _ := mutate(r, string(in))
			in = []byte(s)
		}
		h.setInput(in)
		h.Plan = OneShot()
		if r.Chance(1, 2) {
			h.Plan = randomPlan(r, in)
		}
		switch r.Intn(5) {
		case 0, 3:
			if len(in) > 0 {
				h.Plan.TruncAt = r.Intn(len(in))
			}
		case 1:
			if len(in) > 0 {
				h.Plan.ErrAt = r.Intn(len(in))
			}
		case 2:
			h.AbandonAfter = r.Intn(3)
		}
		hist = append(hist, h)
	}
	// the entry point the input under test goes through afterwards
	if op := kit.Pick(r, []string{"parse", "parse", "parse", "stmts", "interactive", "interactive", "words", "document", "arithmetic"}); op != "parse" {
		hist = append(hist, HistStep{Op: "final:" + op, AbandonAfter: -1, FailAt: -1, ShortAt: -1, Plan: OneShot()})
	}
	return hist
}

// finalOpOf returns the entry point the input under test goes through after
// the history: the last history step may be a marker "final:<op>"; without
// one it is Parse.
func finalOpOf(hist []HistStep) string {
	if n := len(hist); n > 0 && strings.HasPrefix(hist[n-1].Op, "final:") {
		return hist[n-1].Op[len("final:"):]
	}
	return "parse"
}

// traceOp runs one parser entry point over data and returns everything a
// caller can observe, as text: nodes (with positions) in the order they are
// handed out, callback boundaries and Incomplete flags, and the error.
func traceOp(p *syntax.Parser, op string, data []byte, plan Plan) (out string) {
	var sb strings.Builder
	defer func() {
		if r := recover(); r != nil {
			out = sb.String() + fmt.Sprintf("PANIC %v\n", r)
		}
	}()
	rd := NewSimReader(data, plan)
	switch op {
	case "stmts":
		for st, err := range p.StmtsSeq(rd) {
			if err != nil {
				fmt.Fprintf(&sb, "ERR %s\n", errString(err))
				break
			}
			fmt.Fprintf(&sb, "STMT %s\n", dump(st))
		}
	case "interactive":
		for stmts, err := range p.InteractiveSeq(rd) {
			if err != nil {
				fmt.Fprintf(&sb, "ERR %s\n", errString(err))
				break
			}
			fmt.Fprintf(&sb, "CALLBACK after %d bytes incomplete=%v n=%d\n", rd.Delivered(), p.Incomplete(), len(stmts))
			for _, st := range stmts {
				fmt.Fprintf(&sb, "STMT %s\n", dump(st))
			}
		}
	case "words":
		for w, err := range p.WordsSeq(rd) {
			if err != nil {
				fmt.Fprintf(&sb, "ERR %s\n", errString(err))
				break
			}
			fmt.Fprintf(&sb, "WORD %s\n", dump(w))
		}
	case "document":
		w, err := p.Document(rd)
		if w == nil {
			fmt.Fprintf(&sb, "DOC <nil> ERR %s\n", errString(err))
		} else {
			fmt.Fprintf(&sb, "DOC %s ERR %s\n", dump(w), errString(err))
		}
	case "arithmetic":
		x, err := p.Arithmetic(rd)
		if x == nil {
			fmt.Fprintf(&sb, "ARITH <nil> ERR %s\n", errString(err))
		} else {
			fmt.Fprintf(&sb, "ARITH %s ERR %s\n", dump(x), errString(err))
		}
	}
	return sb.String()
}

func checkParserReuse(cfg Cfg, hist []HistStep, data []byte, plan Plan, st *Stats) (ok bool, class, detail string) {
	op := finalOpOf(hist)
	steps := hist
	if op != "parse" {
		steps = hist[:len(hist)-1]
	}
	p := cfg.parser()
	for i := range steps {
		applyParserStep(p, &steps[i], st)
	}
	if op == "parse" {
		fresh, _ := parseWith(cfg, data, plan)
		got := parseUsing(p, NewSimReader(data, plan))
		ok, class, detail = comparePR(fresh, got)
		if !ok {
			class = "reused-parser-" + class
		}
		return
	}
	if op == "interactive" {
		plan.LineMode = true
	}
	fresh := traceOp(cfg.parser(), op, data, plan)
	got := traceOp(p, op, data, plan)
	if st != nil {
		st.Probes.Add("reuse-final-op-"+op, 1)
	}
	if fresh != got {
		return false, "reused-parser-" + op + "-differs", "what " + op + " hands out on the reused parser differs from a fresh one: " + firstDiff(fresh, got)
	}
	return true, "", ""
}

// ---- printer

type PrCfg struct {
	Indent         uint `json:"indent"`
	BinaryNextLine bool `json:"bn,omitempty"`
	SwitchCase     bool `json:"ci,omitempty"`
	SpaceRedirects bool `json:"sr,omitempty"`
	KeepPadding    bool `json:"kp,omitempty"`
	Minify         bool `json:"mn,omitempty"`
	SingleLine     bool `json:"sl,omitempty"`
	FuncNextLine   bool `json:"fn,omitempty"`
}

func (c PrCfg) printer() *syntax.Printer {
	return syntax.NewPrinter(syntax.Indent(c.Indent), syntax.BinaryNextLine(c.BinaryNextLine), syntax.SwitchCaseIndent(c.SwitchCase),
		syntax.SpaceRedirects(c.SpaceRedirects), syntax.KeepPadding(c.KeepPadding), syntax.Minify(c.Minify),
		syntax.SingleLine(c.SingleLine), syntax.FunctionNextLine(c.FuncNextLine))
}

func genPrCfg(r *kit.Rand) PrCfg {
	c := PrCfg{Indent: uint(kit.Pick(r, []int{0, 0, 2, 4, 8}))}
	c.BinaryNextLine = r.Chance(1, 3)
	c.SwitchCase = r.Chance(1, 3)
	c.SpaceRedirects = r.Chance(1, 3)
	c.KeepPadding = r.Chance(1, 5)
	c.FuncNextLine = r.Chance(1, 4)
	switch r.Intn(6) {
	case 0:
		c.Minify = true
	case 1:
		c.SingleLine = true
	}
	return c
}

// pickNode selects the node of f to print according to kind.
func pickNode(f *syntax.File, kind string, r *kit.Rand) syntax.Node {
	switch kind {
	case "stmt":
		if len(f.Stmts) > 0 {
			return f.Stmts[r.Intn(len(f.Stmts))]
		}
	case "command":
		var cmds []syntax.Command
		syntax.Walk(f, func(n syntax.Node) bool {
			if c, ok := n.(syntax.Command); ok && c != nil {
				cmds = append(cmds, c)
			}
			return true
		})
		if len(cmds) > 0 {
			return cmds[r.Intn(len(cmds))]
		}
	case "word":
		var ws []*syntax.Word
		syntax.Walk(f, func(n syntax.Node) bool {
			if w, ok := n.(*syntax.Word); ok && w != nil {
				ws = append(ws, w)
			}
			return true
		})
		if len(ws) > 0 {
			return ws[r.Intn(len(ws))]
		}
	}
	return f
}

func printWith(p *syntax.Printer, w *SimWriter, n syntax.Node) (err error, panicked string) {
	defer func() {
		if r := recover(); r != nil {
			panicked = fmt.Sprint(r)
		}
	}()
	return p.Print(w, n), ""
}

func applyPrinterStep(p *syntax.Printer, h *HistStep, st *Stats) {
	cfg := Cfg{Lang: h.Lang, KeepComments: true}
	res := parseOneShot(cfg, h.input())
	if res.Panic != "" || res.F == nil {
		return
	}
	// A partially parsed file (parse error) is still a tree the printer can
	// be asked to print; it makes a good dirtying input.
	r := kit.NewRand(uint64(h.AbandonAfter) + 77)
	node := pickNode(res.F, h.Node, r)
	w := &SimWriter{FailAt: h.FailAt, ShortAt: h.ShortAt}
	err, pn := printWith(p, w, node)
	if st != nil {
		if pn != "" {
			st.Faults.Add("history-print-panicked", 1)
		} else if err != nil {
			st.Faults.Add("history-print-write-fault-fired", 1)
		}
	}
}

func checkPrinterReuse(pc PrCfg, hist []HistStep, cfg Cfg, data []byte, nodeKind string, nodeSeed uint64, st *Stats) (ok bool, class, detail string, skipped bool) {
	res := parseOneShot(cfg, data)
	if res.Panic != "" || res.Err != nil {
		return true, "", "", true
	}
	node := pickNode(res.F, nodeKind, kit.NewRand(nodeSeed))
	fw := &SimWriter{FailAt: -1, ShortAt: -1}
	ferr, fpanic := printWith(pc.printer(), fw, node)
	if fpanic != "" {
		st.Info.Add("panic-in-fresh-print(C06,unclaimed)", 1)
		return true, "", "", true
	}
	p := pc.printer()
	for i := range hist {
		applyPrinterStep(p, &hist[i], st)
	}
	gw := &SimWriter{FailAt: -1, ShortAt: -1}
	gerr, gpanic := printWith(p, gw, node)
	if gpanic != "" {
		return false, "reused-printer-panic", gpanic, false
	}
	if (ferr == nil) != (gerr == nil) {
		return false, "reused-printer-error-differs", fmt.Sprintf("fresh err=%v reused err=%v", ferr, gerr), false
	}
	if !bytes.Equal(fw.Buf, gw.Buf) {
		return false, "reused-printer-output-differs", firstDiff(string(fw.Buf), string(gw.Buf)), false
	}
	return true, "", "", false
}

// ------------------------------------------------------------------ driver

func mkC08Violation(it *Item, mode string, cfg Cfg, data []byte, plan Plan, hist []HistStep, extra map[string]any, class, detail string) Violation {
	if extra == nil {
		extra = map[string]any{}
	}
	extra["origin"] = it.Origin
	rep := Replay{Property: "C08", World: "A", Seed: it.Seed, Run: it.Idx, Mode: mode, Cfg: cfg, Plan: plan, History: hist, Class: class, Detail: detail, Extra: extra}
	rep.setInput(data)
	key := class + ":" + cfg.Lang + ":" + kit.Digest(data)
	rep.Key = key
	return Violation{Class: class, Key: key, Detail: detail, Rep: rep}
}

func linePlan(r *kit.Rand, data []byte) Plan {
	p := OneShot()
	p.LineMode = true
	p.Family = "lines"
	if r.Chance(1, 3) {
		// split lines further (never across a newline: LineMode caps reads)
		for got := 0; got < len(data); {
			c := r.Range(1, 20)
			p.Chunks = append(p.Chunks, c)
			got += c
		}
		p.Family = "lines+chunks"
	}
	return p
}

func runC08(it *Item, tier string, st *Stats) ([]Violation, uint64) {
	r := kit.NewRand(it.Seed)
	data := it.Src
	var viols []Violation
	var dg uint64 = 1469598103934665603
	logDigest := func(x uint64) { dg = (dg ^ x) * 1099511628211 }
	inputHash := kit.Hash64(data)
	nplans := 3
	nhist := 2
	if tier == "thorough" {
		nplans, nhist = 8, 6
	}
	if strings.HasPrefix(it.Origin, "extra[") {
		nhist *= 6 // the hand-written inputs are few: more histories each
	}
	// inputs used to dirty parsers/printers: other items are not reachable
	// from here, so the pool is generated from this item's seed.
	poolRand := r.Fork("pool")
	pool := func() []byte {
		if poolRand.Chance(1, 4) {
			// the hand-written inputs: special words at the end, special
			// constructs at the start, multi-line statements
			return []byte(kit.Pick(poolRand, extraInputs))
		}
		lang := kit.Pick(poolRand, allLangs)
		return []byte(NewGen(poolRand.Fork("p"), lang).Program())
	}
	for _, lang := range it.Langs {
		cfg := Cfg{Lang: lang, KeepComments: r.Chance(1, 2)}
		if r.Chance(1, 5) || (strings.HasPrefix(it.Origin, "extra[") && r.Chance(1, 2)) {
			// a stop word that the input may or may not contain; the
			// streaming and interactive parsers must agree with Parse under
			// the same option and must not wait for input Parse does not need
			cfg.StopAt = kit.Pick(r, []string{"$$", "$$$", "foo", "}", "é", "éé", "done", "%", "ech", "EOF", ";", "#", "$(", "<<", "&&&"})
		}
		cfgHash := kit.Hash64([]byte(cfg.String()))
		ref := parseOneShot(cfg, data)
		parseable := ref.Panic == "" && ref.Err == nil
		if parseable {
			// (1) StmtsSeq
			plans := []Plan{OneShot(), oneByte(min(len(data), 1<<14))}
			for i := 0; i < nplans; i++ {
				plans = append(plans, randomPlan(r, data))
			}
			for _, plan := range plans {
				ok, class, detail, rd := checkStmtsSeq(cfg, data, plan, ref)
				st.Evals++
				st.Families.Add("stmtsseq/"+plan.Family, 1)
				st.Faults.Add("short-read", int64(len(rd.Splits)))
				if len(rd.Splits) > 0 {
					st.Distinct[inputHash^cfgHash*31^plan.hash()*131^1] = struct{}{}
				}
				logDigest(plan.hash())
				if !ok {
					viols = append(viols, mkC08Violation(it, "stmts", cfg, data, plan, nil, nil, class, detail))
					logDigest(kit.Hash64([]byte(class)))
				}
			}
			// (2) InteractiveSeq, one line per read
			for i := 0; i < 2; i++ {
				plan := linePlan(r, data)
				if i == 0 {
					plan = OneShot()
					plan.LineMode = true
					plan.Family = "lines"
				}
				ok, class, detail, nontriv := checkInteractive(cfg, data, plan, ref, st)
				st.Evals++
				st.Families.Add("interactive/"+plan.Family, 1)
				if nontriv {
					st.Distinct[inputHash^cfgHash*31^plan.hash()*131^2] = struct{}{}
				}
				logDigest(plan.hash() + 2)
				if !ok {
					viols = append(viols, mkC08Violation(it, "interactive", cfg, data, plan, nil, nil, class, detail))
					logDigest(kit.Hash64([]byte(class)))
				}
				if len(data) > 0 && data[len(data)-1] != '\n' {
					st.Probes.Add("interactive-input-without-trailing-newline", 1)
				}
			}
		} else {
			st.Info.Add("unparseable-input-skipped-for-stmts/interactive", 1)
		}
		// (3a) the hand-written inputs after each special ending, alone
		if strings.HasPrefix(it.Origin, "extra[") {
			for _, se := range specialEndings {
				h := HistStep{Op: kit.Pick(r, []string{"parse", "parse", "stmts", "interactive", "words"}), AbandonAfter: -1, FailAt: -1, ShortAt: -1, Plan: OneShot()}
				h.setInput([]byte(se))
				hist := []HistStep{h}
				ok, class, detail := checkParserReuse(cfg, hist, data, OneShot(), st)
				st.Evals++
				st.Families.Add("parser-reuse-after-special-ending", 1)
				st.Distinct[inputHash^cfgHash*31^histHash(hist)*131^5] = struct{}{}
				logDigest(histHash(hist) + 5)
				if !ok {
					viols = append(viols, mkC08Violation(it, "reuse", cfg, data, OneShot(), hist, nil, class, detail))
					logDigest(kit.Hash64([]byte(class)))
				}
			}
		}
		// (3) reuse histories (the input under test may be valid or not)
		for i := 0; i < nhist; i++ {
			// a third of the earlier inputs are the input under test itself
			// (then often cut short or failed by the step's plan): state left
			// behind by a construct is most likely to matter to the same
			// construct
			hist := genParserHistory(r, func() []byte {
				if len(data) > 0 && r.Chance(1, 3) {
					return data
				}
				return pool()
			})
			plan := OneShot()
			if r.Chance(1, 2) {
				plan = randomPlan(r, data)
			}
			before := st.Faults["history-step-ended-in-error"] + st.Faults["history-iterator-abandoned"] + st.Faults["history-input-truncated(EOF fault)"] + st.Faults["history-read-error-injected"]
			ok, class, detail := checkParserReuse(cfg, hist, data, plan, st)
			after := st.Faults["history-step-ended-in-error"] + st.Faults["history-iterator-abandoned"] + st.Faults["history-input-truncated(EOF fault)"] + st.Faults["history-read-error-injected"]
			st.Evals++
			st.Families.Add("parser-reuse", 1)
			hh := histHash(hist)
			if after > before {
				st.Distinct[inputHash^cfgHash*31^hh*131^3] = struct{}{}
			}
			logDigest(hh)
			if !ok {
				viols = append(viols, mkC08Violation(it, "reuse", cfg, data, plan, hist, nil, class, detail))
				logDigest(kit.Hash64([]byte(class)))
			}
			if i == 0 && it.Idx%211 == 0 && len(st.Samples) < 2 {
				st.Samples = append(st.Samples, map[string]any{"kind": "parser reuse history", "cfg": cfg.String(), "history_ops": histOps(hist), "then_parse": kit.Clip(string(data), 120)})
			}
		}
		for i := 0; i < 3*nhist; i++ { // printer histories are cheap
			pc := genPrCfg(r)
			var hist []HistStep
			for j := r.Range(1, 4); j > 0; j-- {
				h := HistStep{Op: "print", Node: kit.Pick(r, []string{"file", "file", "stmt", "command", "word"}), FailAt: -1, ShortAt: -1, AbandonAfter: r.Intn(1000), Lang: kit.Pick(r, allLangs)}
				in := pool()
				if r.Chance(1, 4) {
					s, _ := mutate(r, string(in))
					in = []byte(s)
				} else if r.Chance(1, 3) {
					// the input under test itself, printed before: printing
					// one file twice must give the same bytes twice
					in, h.Lang = data, lang
				}
				h.setInput(in)
				h.Plan = OneShot()
				switch r.Intn(3) {
				case 0:
					h.FailAt = r.Intn(len(in) + 1)
				case 1:
					h.ShortAt = r.Intn(len(in) + 1)
				}
				hist = append(hist, h)
			}
			kind := kit.Pick(r, []string{"file", "file", "file", "stmt", "command", "word"})
			nodeSeed := r.Uint64() % 1000
			before := st.Faults["history-print-write-fault-fired"] + st.Faults["history-print-panicked"]
			ok, class, detail, skipped := checkPrinterReuse(pc, hist, cfg, data, kind, nodeSeed, st)
			if skipped {
				continue
			}
			after := st.Faults["history-print-write-fault-fired"] + st.Faults["history-print-panicked"]
			st.Evals++
			st.Families.Add("printer-reuse", 1)
			hh := histHash(hist)
			if after > before {
				st.Distinct[inputHash^cfgHash*31^hh*131^4] = struct{}{}
			}
			logDigest(hh + 4)
			if !ok {
				viols = append(viols, mkC08Violation(it, "printer-reuse", cfg, data, OneShot(), hist,
					map[string]any{"printer": pc, "node_kind": kind, "node_seed": nodeSeed}, class, detail))
				logDigest(kit.Hash64([]byte(class)))
			}
		}
		if len(viols) > 20 {
			break
		}
	}
	return viols, dg
}

func histHash(h []HistStep) uint64 {
	var parts [][]byte
	for _, s := range h {
		parts = append(parts, []byte(s.Op), []byte(s.InputB64), []byte(fmt.Sprint(s.Plan.hash(), s.AbandonAfter, s.FailAt, s.ShortAt, s.Node)))
	}
	return kit.Hash64(parts...)
}

func histOps(h []HistStep) []string {
	var out []string
	for _, s := range h {
		d := s.Op
		if s.Plan.TruncAt >= 0 {
			d += fmt.Sprintf(" trunc@%d", s.Plan.TruncAt)
		}
		if s.Plan.ErrAt >= 0 {
			d += fmt.Sprintf(" readerr@%d", s.Plan.ErrAt)
		}
		if s.AbandonAfter >= 0 && s.Op != "print" {
			d += fmt.Sprintf(" abandon-after-%d", s.AbandonAfter)
		}
		out = append(out, d+" "+kit.Clip(s.InputQ, 60))
	}
	return out
}

func replayC08(rep *Replay) *Violation {
	data := rep.input()
	it := &Item{Idx: rep.Run, Seed: rep.Seed, Origin: fmt.Sprint(rep.Extra["origin"])}
	st := newStats()
	var ok bool
	var class, detail string
	switch rep.Mode {
	case "stmts":
		ref := parseOneShot(rep.Cfg, data)
		if ref.Panic != "" || ref.Err != nil {
			return nil
		}
		ok, class, detail, _ = checkStmtsSeq(rep.Cfg, data, rep.Plan, ref)
	case "interactive":
		ref := parseOneShot(rep.Cfg, data)
		if ref.Panic != "" || ref.Err != nil {
			return nil
		}
		ok, class, detail, _ = checkInteractive(rep.Cfg, data, rep.Plan, ref, st)
	case "reuse":
		hist := append([]HistStep{}, rep.History...)
		ok, class, detail = checkParserReuse(rep.Cfg, hist, data, rep.Plan, st)
	case "printer-reuse":
		var pc PrCfg
		remarshal(rep.Extra["printer"], &pc)
		kind, _ := rep.Extra["node_kind"].(string)
		var seed uint64
		remarshal(rep.Extra["node_seed"], &seed)
		hist := append([]HistStep{}, rep.History...)
		var skipped bool
		ok, class, detail, skipped = checkPrinterReuse(pc, hist, rep.Cfg, data, kind, seed, st)
		if skipped {
			return nil
		}
	default:
		return nil
	}
	if ok {
		return nil
	}
	v := mkC08Violation(it, rep.Mode, rep.Cfg, data, rep.Plan, rep.History, rep.Extra, class, detail)
	return &v
}
