// Package kit holds what all three simulated worlds share: the seeded PRNG
// every choice is drawn from, replay files, the known-findings list, and the
// evidence writer.
package kit

import (
	"bufio"
	"crypto/sha256"
	"encoding/hex"
	"encoding/json"
	"fmt"
	"os"
	"path/filepath"
	"sort"
	"strconv"
	"strings"
	"time"
)

// VerifDir is where MANIFEST.json, evidence/, replays/ and corpus/ live.
func VerifDir() string {
	if d := os.Getenv("VERIF_DIR"); d != "" {
		return d
	}
	return "/verif"
}

// ---------------------------------------------------------------- PRNG

// Rand is a splitmix64 generator. It is the only source of choice in any
// simulated run; nothing in the harness uses math/rand or a clock to decide.
type Rand struct{ s uint64 }

func NewRand(seed uint64) *Rand { return &Rand{s: seed} }

func mix64(z uint64) uint64 {
	z = (z ^ (z >> 30)) * 0xbf58476d1ce4e5b9
	z = (z ^ (z >> 27)) * 0x94d049bb133111eb
	return z ^ (z >> 31)
}

func (r *Rand) Uint64() uint64 {
	r.s += 0x9e3779b97f4a7c15
	return mix64(r.s)
}

// Intn returns a value in [0,n). n<=0 yields 0.
func (r *Rand) Intn(n int) int {
	if n <= 1 {
		return 0
	}
	return int(r.Uint64() % uint64(n))
}

func (r *Rand) Range(lo, hi int) int { // inclusive
	if hi <= lo {
		return lo
	}
	return lo + r.Intn(hi-lo+1)
}

func (r *Rand) Chance(num, den int) bool { return r.Intn(den) < num }

func (r *Rand) Float() float64 { return float64(r.Uint64()>>11) / float64(1<<53) }

func Pick[T any](r *Rand, xs []T) T { return xs[r.Intn(len(xs))] }

// Fork derives an independent stream, so that adding draws to one part of a
// run does not shift the choices of another.
func (r *Rand) Fork(label string) *Rand {
	h := uint64(1469598103934665603)
	for i := 0; i < len(label); i++ {
		h = (h ^ uint64(label[i])) * 1099511628211
	}
	return &Rand{s: mix64(r.Uint64() ^ h)}
}

// RunSeed is the seed of run i of property prop under root seed root.
func RunSeed(root uint64, prop string, i int) uint64 {
	h := uint64(1469598103934665603)
	for j := 0; j < len(prop); j++ {
		h = (h ^ uint64(prop[j])) * 1099511628211
	}
	return mix64(mix64(root^h) + uint64(i)*0x9e3779b97f4a7c15)
}

// RootSeed reads VERIF_SEED (default def).
func RootSeed(def uint64) uint64 {
	if s := os.Getenv("VERIF_SEED"); s != "" {
		if v, err := strconv.ParseUint(s, 10, 64); err == nil {
			return v
		}
		if v, err := strconv.ParseInt(s, 10, 64); err == nil {
			return uint64(v)
		}
	}
	return def
}

func Digest(parts ...[]byte) string {
	h := sha256.New()
	for _, p := range parts {
		var l [8]byte
		n := len(p)
		for i := 0; i < 8; i++ {
			l[i] = byte(n >> (8 * i))
		}
		h.Write(l[:])
		h.Write(p)
	}
	return hex.EncodeToString(h.Sum(nil))[:16]
}

func Hash64(parts ...[]byte) uint64 {
	h := uint64(1469598103934665603)
	for _, p := range parts {
		for _, b := range p {
			h = (h ^ uint64(b)) * 1099511628211
		}
		h = (h ^ 0xff) * 1099511628211
	}
	return mix64(h)
}

// ---------------------------------------------------------------- findings

// Finding is one line of KNOWN_FINDINGS.txt.
//
//	known: property=C27 key=<key> <what fails>
//	fixed: property=C27 <commit> key=<key> <what failed>
//
// Only "known:" lines suppress anything; the key must equal the key the
// check computes for the violation (a violation class plus the specific
// failing input/call-site signature), so a different violation of the same
// property is still reported.
type Finding struct {
	Kind     string // known | fixed
	Property string
	Key      string
	Text     string
}

func LoadFindings() ([]Finding, error) {
	f, err := os.Open(filepath.Join(VerifDir(), "KNOWN_FINDINGS.txt"))
	if err != nil {
		if os.IsNotExist(err) {
			return nil, nil
		}
		return nil, err
	}
	defer f.Close()
	var out []Finding
	sc := bufio.NewScanner(f)
	for sc.Scan() {
		line := strings.TrimSpace(sc.Text())
		if line == "" || strings.HasPrefix(line, "#") {
			continue
		}
		var fd Finding
		switch {
		case strings.HasPrefix(line, "known:"):
			fd.Kind = "known"
			line = strings.TrimSpace(line[len("known:"):])
		case strings.HasPrefix(line, "fixed:"):
			fd.Kind = "fixed"
			line = strings.TrimSpace(line[len("fixed:"):])
		default:
			return nil, fmt.Errorf("KNOWN_FINDINGS.txt: bad line %q", line)
		}
		for _, w := range strings.Fields(line) {
			if strings.HasPrefix(w, "property=") && fd.Property == "" {
				fd.Property = w[len("property="):]
			} else if strings.HasPrefix(w, "key=") && fd.Key == "" {
				fd.Key = w[len("key="):]
			}
		}
		fd.Text = line
		out = append(out, fd)
	}
	return out, sc.Err()
}

// KnownKey reports whether (prop,key) is listed as a known (unrepaired) finding.
func KnownKey(fs []Finding, prop, key string) (Finding, bool) {
	for _, f := range fs {
		if f.Kind == "known" && f.Property == prop && f.Key == key {
			return f, true
		}
	}
	return Finding{}, false
}

// ---------------------------------------------------------------- replay

func WriteReplay(prop string, v any) (string, error) {
	dir := filepath.Join(VerifDir(), "replays")
	if err := os.MkdirAll(dir, 0o755); err != nil {
		return "", err
	}
	b, err := json.MarshalIndent(v, "", " ")
	if err != nil {
		return "", err
	}
	name := fmt.Sprintf("%s-%s.json", prop, Digest(b))
	path := filepath.Join(dir, name)
	return path, os.WriteFile(path, b, 0o644)
}

// ---------------------------------------------------------------- evidence

type Evidence struct {
	PropertyID  string         `json:"property_id"`
	Tier        string         `json:"tier"`
	Seed        int64          `json:"seed"`
	Level       string         `json:"level"`
	Coverage    map[string]any `json:"coverage"`
	Assumptions []string       `json:"assumptions,omitempty"`
	WallS       float64        `json:"wall_s"`
	Violations  int            `json:"violations"`
}

func WriteEvidence(e *Evidence) error {
	dir := filepath.Join(VerifDir(), "evidence")
	if err := os.MkdirAll(dir, 0o755); err != nil {
		return err
	}
	b, err := json.MarshalIndent(e, "", " ")
	if err != nil {
		return err
	}
	tmp := filepath.Join(dir, "."+e.PropertyID+".tmp")
	if err := os.WriteFile(tmp, append(b, '\n'), 0o644); err != nil {
		return err
	}
	return os.Rename(tmp, filepath.Join(dir, e.PropertyID+".json"))
}

// Counter is a name -> count tally with deterministic output order.
type Counter map[string]int64

func (c Counter) Add(k string, n int64) { c[k] += n }
func (c Counter) Merge(o Counter) {
	for k, v := range o {
		c[k] += v
	}
}
func (c Counter) Keys() []string {
	ks := make([]string, 0, len(c))
	for k := range c {
		ks = append(ks, k)
	}
	sort.Strings(ks)
	return ks
}

// Rates fills the runs/seeds-per-hour keys the brief asks for.
func Rates(cov map[string]any, runs int64, wall time.Duration) {
	h := wall.Hours()
	if h <= 0 {
		h = 1e-9
	}
	cov["runs_per_hour"] = int64(float64(runs) / h)
	cov["seeds_per_hour"] = int64(float64(runs) / h)
}

// Clip shortens s for logs and samples.
func Clip(s string, n int) string {
	if len(s) <= n {
		return s
	}
	return s[:n] + fmt.Sprintf("…(+%d bytes)", len(s)-n)
}
