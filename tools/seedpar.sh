#!/bin/bash
# usage: tools/seedpar.sh <seed dir under seeded/> <property id> [quick|thorough]
# Like tools/seedtest.sh, but leaves /repo and /verif/bin alone, so that
# several seeds can be tested side by side: the committed tree of /repo is
# exported to a scratch directory, the seed's patch applied there, the world
# binaries built against that copy (go -modfile with the replace directive
# pointing at it) into a scratch VERIF_DIR, and the property's check run there.
# No determinism gate (that is ./check's job). Prints CAUGHT / MISSED / TROUBLE
# as its last line and removes the scratch directory.
set -u
seed=$(readlink -f "$1"); prop=$2; tier=${3:-quick}
name=$(basename "$seed")-$prop
export GOFLAGS=-mod=mod GOPROXY=off GOSUMDB=off GOTOOLCHAIN=local CGO_ENABLED=1
GO=/opt/veriftools/go1.26.8/bin/go
d=/tmp/sr/$name
rm -rf "$d"; mkdir -p "$d/repo" "$d/v/bin" "$d/v/evidence" "$d/v/replays"
trap 'rm -rf "$d"' EXIT
git -C /repo archive HEAD | tar -x -C "$d/repo" || { echo "TROUBLE: export failed"; exit 2; }
(cd "$d/repo" && git init -q . && git apply "$seed/patch.diff") || { echo "TROUBLE: patch does not apply"; exit 2; }
sed "s#=> /repo#=> $d/repo#" /verif/sim/go.mod > "$d/go.mod"
cp /verif/sim/go.sum "$d/go.sum"
ln -s /verif/corpus "$d/v/corpus"
cp /verif/KNOWN_FINDINGS.txt "$d/v/"
cd /verif/sim || exit 2
out="$d/out.txt"
case "$prop" in
C07|C08|C10)
	$GO build -modfile="$d/go.mod" -o "$d/v/bin/worlda" ./cmd/worlda > "$d/build.txt" 2>&1 || { tail -5 "$d/build.txt"; echo "TROUBLE: build failed"; exit 2; }
	VERIF_DIR="$d/v" "$d/v/bin/worlda" "$prop" "$tier" > "$out" 2>&1; code=$? ;;
C27|C29|C30|C31|C32)
	{ $GO test -modfile="$d/go.mod" -c -race -tags verif -o "$d/v/bin/worldb.test" ./worldb && $GO build -modfile="$d/go.mod" -tags verif -o "$d/v/bin/worldb-driver" ./cmd/worldb-driver && $GO build -modfile="$d/go.mod" -o "$d/v/bin/realprobe" ./cmd/realprobe; } > "$d/build.txt" 2>&1 || { tail -5 "$d/build.txt"; echo "TROUBLE: build failed"; exit 2; }
	VERIF_DIR="$d/v" "$d/v/bin/worldb-driver" "$prop" "$tier" > "$out" 2>&1; code=$? ;;
C35)
	{ $GO build -modfile="$d/go.mod" -o "$d/v/bin/worldc" ./cmd/worldc && (cd "$d/repo" && $GO build -tags verif -o "$d/v/bin/shfmt-under-test" ./cmd/shfmt); } > "$d/build.txt" 2>&1 || { tail -5 "$d/build.txt"; echo "TROUBLE: build failed"; exit 2; }
	VERIF_DIR="$d/v" "$d/v/bin/worldc" "$tier" > "$out" 2>&1; code=$? ;;
*) echo "TROUBLE: unknown property $prop"; exit 2 ;;
esac
grep -E "^(VIOLATION|violation|property=|check trouble|determinism)" "$out" | cut -c1-260 | head -6
grep -A3 "^violation" "$out" | grep "detail" | head -2 | cut -c1-300
case $code in
0) echo "MISSED (exit 0)";;
1) echo "CAUGHT (exit 1)";;
*) tail -5 "$out" | cut -c1-300; echo "TROUBLE (exit $code)";;
esac
