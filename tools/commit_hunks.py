#!/usr/bin/env python3
"""Commit selected hunks of /repo's working-tree diff as one commit.

usage: commit_hunks.py <file> <hunk-indexes, comma separated, 0-based> <message-file>
Used to keep 'fix:' and hook commits in /repo small and separate.
"""
import subprocess, sys, re, tempfile, os

path, idxs, msgfile = sys.argv[1], [int(x) for x in sys.argv[2].split(",")], sys.argv[3]
diff = subprocess.run(["git", "-C", "/repo", "diff", "--", path], capture_output=True, text=True, check=True).stdout
head, *hunks = re.split(r"(?m)^(?=@@ )", diff)
sel = [hunks[i] for i in idxs]
with tempfile.NamedTemporaryFile("w", suffix=".diff", delete=False) as f:
    f.write(head + "".join(sel))
    name = f.name
subprocess.run(["git", "-C", "/repo", "apply", "--cached", "--recount", name], check=True)
os.unlink(name)
subprocess.run(["git", "-C", "/repo", "commit", "-q", "-F", msgfile], check=True)
print(subprocess.run(["git", "-C", "/repo", "log", "--oneline", "-1"], capture_output=True, text=True).stdout)
