#!/usr/bin/env python3
"""Regenerates /verif/MANIFEST.json (kept in a script so it always validates)."""
import json, subprocess, os

V = "/verif"
baseline = json.load(open("/root/.vp/BASELINE.json"))["cmd"]

def hook_commits():
    out = subprocess.run(["git", "-C", "/repo", "log", "--format=%H %s"], capture_output=True, text=True).stdout
    return [l.split()[0] for l in out.splitlines() if " verif:" in l or l.split(" ", 1)[1].startswith("verif")]

claimed = {
 "C07": dict(cat="exploration", eng="worldA",
   text="Seeded exploration of read schedules of a simulated io.Reader over the real parser: every single split point of every corpus input (complete per input <= 4 KiB), the 1-byte reader, zero-length reads, EOF-with-data and seeded chunkings, over the committed corpus x 5 variants x parser options and generated programs; oracle is deep equality (positions included) with the one-shot parse. Sampling over inputs, exhaustive over single splits per input; no proof.",
   note="Trusts reflect.DeepEqual over *syntax.File as 'same tree', the one-shot bytes.Reader parse as the reference, and the harvested corpus + generator as a representative input space. Non-EOF read errors are outside the property.",
   tech="deterministic simulation: simulated io.Reader with seeded/enumerated short-read schedules; differential oracle against one-shot parse", ref="DESIGN.md §3.1, §5 C07"),
 "C08": dict(cat="exploration", eng="worldA",
   text="Seeded exploration: StmtsSeq under read plans, InteractiveSeq fed line by line through a simulated pipe that stays open (oracle evaluated at every instant the parser blocks on the pipe, with a metamorphic finished-prefix test), and reuse histories of Parser/Printer including EOF faults, injected read errors mid-token, abandoned iterators and failing/short writers; compared with Parse / a fresh Parser / a fresh Printer.",
   note="Only parseable programs gate the streaming/interactive clauses (as the property quantifies). 'finished prefix' is decided by parsing prefix and prefix+fresh command with the same parser. Options are fixed within a reuse history.",
   tech="deterministic simulation: simulated blocking line reader / failing writer, history generation with fault injection, reference = fresh parser/printer", ref="DESIGN.md §3.1, §5 C08"),
 "C10": dict(cat="fault_enumeration", eng="worldA",
   text="The fault 'stream ends early' is enumerated at EVERY line boundary of every valid program (complete per input <= 16 KiB), each under one-shot and two seeded short-read plans; the prefix must parse or fail with IsIncomplete. Every positioned error seen (also on corrupted/truncated inputs) must lie inside the delivered bytes.",
   note="Validity of a program in a variant is decided by the parser under test. Programs are sampled (corpus + generator); cut points per program are complete. Exact offset/line:col agreement is tallied, not gated.",
   tech="deterministic simulation: EOF-fault enumeration at all line boundaries on a simulated reader + corrupted-byte faults for the position clause", ref="DESIGN.md §3.1, §5 C10"),
 "C27": dict(cat="exploration", eng="worldB",
   text="Seeded exploration: generated parent states x generated mutating lists S in every isolating context (subshell, $( ), <( ), >( ), first/middle/last pipeline stage, background job, nestings), optional parent-side statements running while the child lives, under seeded interleavings (random, preemption-bounded, PCT, starvation), tiny pipe capacities and FIFO/exec faults; refinement oracle: in-shell state dump and Go-level Vars/Funcs/Dir/Params equal those of a sequential reference run without S.",
   note="Trusts the same interpreter's sequential run without S as the reference for parent state; pipes/FIFOs/files/commands are stubs; generated programs use a fixed vocabulary of state-changing statements.",
   tech="deterministic simulation: controller-owned goroutine interleaving in a synctest bubble + fault injection; refinement against a reference run", ref="DESIGN.md §3.2, §5 C27"),
 "C29": dict(cat="exploration", eng="worldB",
   text="Seeded exploration: generated programs exercising alias/declare/brace/here-doc/function/trap/background/pipe mechanisms run under seeded interleavings with cancellation at a seeded step and I/O faults; the tree (typed JSON + printed form) is compared before Run and after every spawned goroutine finished; the supplied Environ records writes and is deep-compared including spare slice capacity.",
   note="typedjson + printed form stand for 'the tree'; Environ is a recording implementation serving string, indexed, sparse and associative values.",
   tech="deterministic simulation: controlled interleaving + cancellation/I-O fault injection; before/after invariant on tree and Environ", ref="DESIGN.md §3.2, §5 C29"),
 "C30": dict(cat="exploration", eng="worldB",
   text="Seeded exploration of reuse histories: 1..6 programs on one Runner ending normally, by exit, fatal handler error or cancellation at a seeded step, with jobs left running, then Reset+Run(P) compared with a fresh Runner (output, error, Exited, Vars, Funcs, Dir, Params); plus statement-by-statement Run vs whole-file Run.",
   note="External state (simulated files, stdin bytes) is kept out of the comparison by construction. The reference is the same interpreter on a new Runner.",
   tech="deterministic simulation: history generation with cancellation (crash-restart analogue) and fault injection; refinement against a fresh Runner", ref="DESIGN.md §3.2, §5 C30"),
 "C31": dict(cat="exploration", eng="worldB",
   text="Bounded liveness under cancellation: 38 non-terminating/blocking program shapes x cancellation steps (0..23 enumerated per program, later ones drawn) x interleavings and pipe capacities; after the cancel event Run must return within 2000 scheduling steps and 3 s of simulated time with a non-nil error, and the simulation must never reach a state with nothing runnable and no timer.",
   note="Simulated commands die at once on cancellation except 'stubborn' (<= 2 s), modelling the kill timeout; the real DefaultExecHandler signal path is not simulated.",
   tech="deterministic simulation: cancellation injected at enumerated/seeded controller steps, fake clock, deadlock detection by quiescence", ref="DESIGN.md §3.2, §5 C31"),
 "C32": dict(cat="exploration", eng="worldB",
   text="Seeded exploration: generated concurrent programs (jobs, pipelines, |&, process/command substitutions, functions in jobs) with parent and children touching the same names, Runner.Subshell copies run concurrently with their parent, under controlled interleavings with the Go race detector on and the scheduler's hand-offs hidden from it; plus wait gN status oracle with simulated job durations.",
   note="A race is found only if both accesses execute in the run; reports are per-process-once so attribution is to the first run showing it. Simulated pipes order writer->reader like real pipes.",
   tech="deterministic simulation: controller-owned interleaving under -race (invisible hand-off), fault injection to reach error paths; direct oracle for wait statuses", ref="DESIGN.md §3.2, §5 C32"),
 "C35": dict(cat="fault_enumeration", eng="worldC",
   text="Crash-point enumeration on the real shfmt binary: for each generated scenario every file-system system call of the fault-free `shfmt -w` run (found with strace) is used as a kill point (SIGKILL before the call executes, the scenario restored each time); after each kill every target must hold exactly the original or exactly the formatted bytes with unchanged permission bits, symlinks/FIFOs untouched; completed runs must leave no temporary file. Complete over the kill points of a scenario; scenarios (sizes to 200 KiB, 11 modes x 4 umasks, TMPDIR on the same/another file system, symlink/FIFO/directory targets, flag sets) are sampled.",
   note="Kills, not power cuts: page-cache durability is outside the property. The shfmt under test is built with the verif tag, whose only effect is runtime.LockOSThread in init so that strace's per-thread call counters see one sequence. Trusts strace's fault injection (call not executed, SIGKILL delivered).",
   tech="deterministic fault injection: strace syscall-level kill injection, exhaustive over the syscall boundaries of each run, real binary and kernel file system", ref="DESIGN.md §3.3, §5 C35"),
}

pending = {  # id -> reason while a check is under construction
 k: "not claimed yet: the World B / World C check for this property is under construction (see DESIGN.md §5); it will be claimed once its check runs clean on the unchanged tree"
 for k in ["C27", "C29", "C30", "C31", "C32", "C35"] if k not in claimed
}

na = {
 "C01": "pure function of (input, printer options): parse->print->parse equality has no schedule, clock, fault or interleaving to simulate",
 "C02": "fixed point of a pure function (format twice); nothing for a simulator to schedule or fault",
 "C03": "differential run of original vs formatted deterministic programs; no fault or schedule dimension in the statement",
 "C04": "pure tree rewrite compared by differential execution; no fault or schedule dimension",
 "C05": "comment sequence of a pure transformation of the input",
 "C06": "totality (no crash/hang) over inputs; a pure function of the input bytes (panics met incidentally in World A are counted, not gated)",
 "C09": "positions are a pure function of the input; their independence from read schedules is covered by C07",
 "C11": "acceptance/tree predicate over inputs x variants; pure",
 "C12": "differential against external shells (bash/dash) over inputs; no schedule or fault",
 "C13": "pure function (Quote) checked by round trip / differential against shells",
 "C14": "pure traversal of an immutable tree",
 "C15": "pure encode/decode round trip",
 "C16": "pure function, differential against bash",
 "C17": "language equality of a pure pattern translation",
 "C18": "pure functions of a string",
 "C19": "function of (directory tree, word, options); the file system is an input here, not a fault source",
 "C20": "pure evaluation, differential against bash",
 "C21": "pure expansion, differential against bash",
 "C22": "pure field splitting, differential against bash",
 "C23": "the read builtin consumes stdin one byte at a time, so arrival schedule cannot matter; the oracle is bash",
 "C24": "pure formatting, differential against bash",
 "C25": "pure expansion API, differential against bash",
 "C26": "differential over deterministic programs; quantifier is programs only (schedule-independence of wait statuses is under C32)",
 "C28": "totality over programs; pure function of the program",
 "C33": "sequential model comparison on one thread; no fault or schedule (cross-goroutine aliasing of array storage is under C27/C32)",
 "C34": "pure data structure (ordered map) semantics",
 "C36": "consistency of pure functions of (files, flags); crash behaviour of -w is C35",
}

checks = []
for pid, c in claimed.items():
    checks.append({
        "property_id": pid,
        "quick_cmd": f"./check {pid} quick",
        "thorough_cmd": f"./check {pid} thorough",
        "evidence_file": f"/verif/evidence/{pid}.json",
        "replay_cmd_template": f"./check {pid} --replay {{path}}",
        "engine": c["eng"],
        "level_claimed": {"category": c["cat"], "text": c["text"], "design_ref": c["ref"]},
        "level_note": c["note"],
        "technique": c["tech"],
    })

not_applicable = [{"property_id": k, "reason": "not applicable to deterministic simulation with fault injection: " + v} for k, v in sorted(na.items())]
for k, v in sorted(pending.items()):
    not_applicable.append({"property_id": k, "reason": v})

engines = [
 {"name": "worldA", "path": "sim/cmd/worlda", "serves_properties": ["C07", "C08", "C10"], "kind_free_text": "stream simulator: simulated io.Reader/io.Writer (short reads, zero reads, EOF with data, truncation, injected errors) around the real syntax package"},
 {"name": "worldB", "path": "sim/worldb", "serves_properties": ["C27", "C29", "C30", "C31", "C32"], "kind_free_text": "shell concurrency simulator: controller goroutine inside a testing/synctest bubble decides every interleaving of the real interp goroutines (race detector on), simulated pipes/FIFOs/files/commands, cancellation and I/O fault injection"},
 {"name": "worldC", "path": "sim/cmd/worldc", "serves_properties": ["C35"], "kind_free_text": "crash-point simulator: real shfmt binary under strace syscall-fault injection (SIGKILL before the k-th file-system call), all kill points of a scenario enumerated"},
]

m = {
 "version": 1,
 "setup_cmd": "./check build",
 "hooks": {
   "guard": "go build tag `verif` (files interp/verif_on.go, interp/stdin_verif.go, cmd/shfmt/verif_thread.go; no-op stubs in interp/verif_off.go without the tag)",
   "enable": "go1.26.8 test -c -race -tags verif ./worldb (harness module /verif/sim with replace mvdan.cc/sh/v3 => /repo); world A needs no hook; world C builds shfmt with -tags verif (main goroutine pinned to the main thread)",
   "baseline_off_cmd": baseline,
   "source_commits": hook_commits(),
   "add_only": False,
 },
 "engines": engines,
 "checks": checks,
 "not_applicable": not_applicable,
 "notes": "Technique family: deterministic simulation with fault injection. See DESIGN.md. KNOWN_FINDINGS.txt lists genuine defects (fixed: entries suppress nothing). Exit codes: 0 held, 1 VIOLATION, 2 harness trouble (build, watchdog, replay divergence, determinism gate).",
}
json.dump(m, open(f"{V}/MANIFEST.json", "w"), indent=1)
print("checks:", [c["property_id"] for c in checks], "not_applicable:", len(not_applicable))
