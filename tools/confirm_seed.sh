#!/bin/bash
# usage: tools/confirm_seed.sh <property id> <A|B> <package dir for the demo, e.g. syntax or interp; "sh" for a demo.sh>
# Confirms, in the sub-agent's scratch worktree /tmp/mut/<id>, that a seeded
# change (1) applies and builds, (2) leaves the existing test suite passing
# (modulo the 5 root-permission cases that fail on the pristine tree),
# (3) makes its own demonstration fail, which passes without the change.
# Leaves the worktree clean. Prints one line per step and a final verdict.
set -u
export GOFLAGS=-mod=mod GOPROXY=off GOSUMDB=off GOTOOLCHAIN=local
GO=/opt/veriftools/go1.26.8/bin/go
id=$1; which=$2; pkg=$3
wt=/tmp/mut/$id; m=$wt/MUTATION_$which
cd "$wt" || exit 2
git checkout -q -- .
[ "$pkg" != sh ] && rm -f "$pkg/demo_test.go"
ok=1
demo() { # runs the demonstration; exit status 0 = demo passes
	if [ "$pkg" = sh ]; then
		$GO build -o "$wt/shfmt-demo" ./cmd/shfmt || return 2
		bash "$m/demo.sh" "$wt/shfmt-demo" > "$wt/demo.out" 2>&1; rc=$?; rm -f "$wt/shfmt-demo"; return $rc
	fi
	cp "$m"/demo_test.go "$pkg/demo_test.go"
	extra=""; grep -q "race" "$m/NOTES.md" 2>/dev/null && [ "$id" = C32 ] && [ "$which" = A ] && extra="-race"
	head -1 "$m/NOTES.md" 2>/dev/null | grep -q "KIND: race" && extra="-race"
	$GO test $extra -count=1 -run 'Demo' ./$pkg/ > "$wt/demo.out" 2>&1; rc=$?
	rm -f "$pkg/demo_test.go"; return $rc
}
demo; r0=$?
echo "demo on unchanged tree: exit $r0 (want 0)"; [ $r0 = 0 ] || ok=0
if ! git apply --check "$m/patch.diff" 2>/dev/null; then echo "patch does not apply"; exit 1; fi
git apply "$m/patch.diff"
if $GO build ./... 2>"$wt/build.err"; then echo "build with change: ok"; else echo "build with change: FAILED"; ok=0; fi
demo; r1=$?
echo "demo with change: exit $r1 (want non-zero)"; [ $r1 != 0 ] || ok=0
tail -5 "$wt/demo.out" | cut -c1-200 | sed 's/^/    /'
# existing suite with the change
$GO test -count=1 $($GO list ./... | grep -v MUTATION_) 2>&1 | grep -E "^(--- FAIL|    --- FAIL|FAIL|ok)" > "$wt/suite.out"
fails=$(grep -E "^\s*--- FAIL" "$wt/suite.out" | grep -v "TestRunnerRun/#13\(17\|18\|19\|20\|21\)" | grep -v "^--- FAIL: TestRunnerRun " )
if [ -z "$fails" ]; then echo "existing suite with change: passes (only the 5 known root-permission cases fail)"; else echo "existing suite with change: EXTRA FAILURES:"; echo "$fails" | head -8; ok=0; fi
git checkout -q -- . ; git clean -fdq -e 'MUTATION_*' 2>/dev/null
rm -f "$wt/demo.out" "$wt/suite.out" "$wt/build.err"
[ $ok = 1 ] && echo "CONFIRMED $id $which" || echo "NOT CONFIRMED $id $which"
