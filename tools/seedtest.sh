#!/bin/bash
# usage: tools/seedtest.sh <patch.diff> <property id> [quick|thorough]
# Applies a seeded change to /repo, runs the property's check, and restores
# /repo (git checkout -- . plus removal of files the patch added).
# Prints "CAUGHT", "MISSED" or "TROUBLE" as its last line.
set -u
patch=$(readlink -f "$1"); prop=$2; tier=${3:-quick}
cd /verif || exit 2
if [ -n "$(git -C /repo status --porcelain)" ]; then echo "TROUBLE: /repo is not clean"; exit 2; fi
if ! git -C /repo apply --check "$patch" 2>/dev/null; then echo "TROUBLE: patch does not apply"; exit 2; fi
git -C /repo apply "$patch"
out=$(mktemp)
./check "$prop" "$tier" > "$out" 2>&1
code=$?
git -C /repo checkout -- . && git -C /repo clean -fdq
grep -E "^(VIOLATION|KNOWN-FINDING|violation|property=|check trouble|determinism)" "$out" | cut -c1-300 | head -12
grep -A3 "^violation" "$out" | grep "detail" | head -3 | cut -c1-400
rm -f "$out"
case $code in
0) echo "MISSED (exit 0)";;
1) echo "CAUGHT (exit 1)";;
*) echo "TROUBLE (exit $code)";;
esac
