#!/bin/bash
# Runs every seeded change under /verif/seeded against the quick check of the
# property it breaks and prints one line per seed. Applies each patch to
# /repo and restores it afterwards (see tools/seedtest.sh); do not use /repo
# for anything else while this runs.
cd /verif || exit 2
missed=0
for d in seeded/*/; do
	id=$(basename "$d")
	[ -f "$d/patch.diff" ] || continue
	props=$(python3 -c "import json;print(json.load(open('$d/meta.json'))['breaks_property'])")
	[ "$id" = revert-7695b12 ] && props="C27 C29 C32"
	[ "$id" = C10-I ] && props="C08" # only breaks a reused Parser
	for p in $props; do
		r=$(tools/seedtest.sh "$d/patch.diff" "$p" quick 2>&1 | tail -1)
		echo "$id $p: $r"
		case "$r" in CAUGHT*) ;; *) missed=$((missed+1));; esac
	done
done
echo "seeds not caught: $missed"
