#!/bin/bash
# usage: tools/seed_regress_par.sh [parallelism]
# Runs every seeded change under /verif/seeded against the quick check of the
# property it breaks, several at a time, through tools/seedpar.sh (which works
# on a scratch export of /repo's HEAD, so /repo and /verif/bin stay untouched).
# Prints one line per seed and the number of seeds not caught. Do not edit
# /verif/sim while it runs (every seed rebuilds from those sources).
cd /verif || exit 2
par=${1:-4}
list=$(mktemp)
for d in seeded/*/; do
	id=$(basename "$d")
	[ -f "$d/patch.diff" ] || continue
	props=$(python3 -c "import json;print(json.load(open('$d/meta.json'))['breaks_property'])" 2>/dev/null)
	[ "$id" = revert-7695b12 ] && props="C27 C29 C32"
	[ "$id" = C10-I ] && props="C08" # only breaks a reused Parser
	[ "$id" = C35-L ] && continue     # outside the property (an I/O error is not a kill); see DESIGN.md
	[ "$id" = revert-7c9dc4a ] && continue # superseded, see its meta.json
	[ "$id" = revert-d0ad8d3 ] && continue # superseded, see its meta.json
	[ "$id" = C31-H ] && continue          # no longer a violation, see its meta.json
	[ "$id" = revert-734ea4b ] && continue # no longer a violation, see its meta.json
	for p in $props; do echo "$id $p"; done
done > "$list"
xargs -P "$par" -L 1 bash -c 'r=$(/verif/tools/seedpar.sh /verif/seeded/$0 $1 quick 2>&1 | tail -1); echo "$0 $1: $r"' < "$list" | tee /verif/seeded/REGRESS.log.new
mv /verif/seeded/REGRESS.log.new /verif/seeded/REGRESS.log
echo "seeds not caught: $(grep -vc CAUGHT /verif/seeded/REGRESS.log)" | tee -a /verif/seeded/REGRESS.log
rm -f "$list"
